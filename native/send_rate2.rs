//@file src/half_connection/send_rate.rs
//@props C03 C14 C13
#[cfg(test)]
mod verif_native2 {
    use super::*;
    #[test]
    fn verif_d18_two_expiries_without_feedback_or_send() {
        let mut c = SendRateComp::new(10_000);
        c.notify_frame_sent(0);
        c.step(2000, None, |_| {});   // first no-feedback expiry: sets nofeedback_idle = true, rtt_s still None
        c.step(6001, None, |_| {});   // second expiry, nothing sent in between
    }
    #[test]
    fn verif_d19_expiry_exceeds_ceiling() {
        let mut c = SendRateComp::new(10_000);
        c.notify_frame_sent(0);
        c.step(100, Some(FeedbackData { rtt_ms: 100, receive_rate: 100_000, loss_rate: 0.0, rate_limited: false }), |_| {});
        c.step(300, Some(FeedbackData { rtt_ms: 100, receive_rate: 100_000, loss_rate: 0.000001, rate_limited: false }), |_| {});
        c.step(500, Some(FeedbackData { rtt_ms: 100, receive_rate: 100_000, loss_rate: 0.000001, rate_limited: false }), |_| {});
        c.notify_frame_sent(501);
        let before = c.send_rate;
        c.step(1_000_000, None, |_| {});
        println!("send_rate before expiry {} after {} ceiling {}", before, c.send_rate, c.max_send_rate);
        assert!(c.send_rate <= c.max_send_rate, "rate {} above the ceiling {}", c.send_rate, c.max_send_rate);
        assert!(c.send_rate <= before, "rate increased on a no-feedback expiry: {} -> {}", before, c.send_rate);
    }

    // C14: the RTT estimate is the 0.9/0.1 moving average of the samples (first sample taken as is), at millisecond scale too
    #[test]
    fn verif_c14_rtt_is_the_moving_average() {
        for samples in [vec![0u64, 4, 4, 4, 4, 4, 4, 4], vec![5, 0, 0, 0, 0, 0, 0, 0], vec![100, 120, 80, 100, 3, 250]] {
            let mut c = SendRateComp::new(1_000_000);
            c.notify_frame_sent(0);
            let mut expect: Option<f64> = None;
            let mut now = 0u64;
            for &ms in samples.iter() {
                now += 500;
                c.step(now, Some(FeedbackData { rtt_ms: ms, receive_rate: 100_000, loss_rate: 0.0, rate_limited: false }), |_| {});
                let s = ms as f64 / 1000.0;
                expect = Some(match expect { None => s, Some(r) => 0.9 * r + 0.1 * s });
                let got = c.rtt_s().unwrap();
                assert!((got - expect.unwrap()).abs() < 1e-12, "samples {:?}: rtt estimate {} s, moving average {} s", samples, got, expect.unwrap());
            }
        }
    }
}
