//@file src/half_connection/packet_sender.rs
//@props C03 C06 C20 C02 C04 C09 C12
// T9 cover for the trusted contract of PacketSender::new (contracts/packet_sender.vspec, spec fn `new_state`): the
// constructor uses `(0..n).map(|_| ..).collect()`, which Verus rejects, so the field values it establishes are TESTED on
// samples here (not proved); that those field values imply the four invariants is proved (lemma_new_state_wf).
#[cfg(test)]
mod verif_t9_packet_sender_new {
    use super::*;
    #[test]
    fn verif_t9_packet_sender_new_contract() {
        for &ws in [1u32, 2, 4, 64, 4096].iter() {
            for &base in [0u32, 1, 0xFFFFF].iter() {
                for &limit in [0usize, 1, 1447, 1448, 1449, 1_000_000, u32::MAX as usize].iter() {
                    let s = PacketSender::new(ws, base, limit);
                    assert_eq!(s.packet_send_queue.len(), 0);
                    assert!(s.base_id == base && s.next_id == base);
                    assert!(s.window.len() == ws as usize && s.window_size == ws && s.window_mask == ws - 1);
                    assert!(s.window.iter().all(|e| e.is_none()));
                    assert!(s.window_parent_id.is_none());
                    assert!(s.channels.len() == 64 && s.channels.iter().all(|c| c.parent_id.is_none()));
                    assert_eq!(s.max_alloc, ((limit + 1447) / 1448) * 1448);
                    assert!(s.alloc == 0 && s.total_size == 0);
                }
            }
        }
    }
}
