#[cfg(test)]
mod verif_replay {
    use super::*;
    use crate::frame::{Datagram, DataFrame, AckFrame, SyncFrame, AckGroup};
    use crate::{MAX_FRAGMENT_SIZE, MAX_FRAME_WINDOW_SIZE, MAX_PACKET_WINDOW_SIZE};

    struct NullFrameSink(usize);
    impl FrameSink for NullFrameSink { fn send(&mut self, _d: &[u8]) { self.0 += 1; } }
    struct NullPacketSink(usize);
    impl PacketSink for NullPacketSink { fn send(&mut self, _d: Box<[u8]>) { self.0 += 1; } }

    fn cfg(rx_alloc: usize) -> Config {
        Config {
            tx_frame_window_size: MAX_FRAME_WINDOW_SIZE, rx_frame_window_size: MAX_FRAME_WINDOW_SIZE,
            tx_frame_base_id: 0, rx_frame_base_id: 0,
            tx_packet_window_size: MAX_PACKET_WINDOW_SIZE, rx_packet_window_size: MAX_PACKET_WINDOW_SIZE,
            tx_packet_base_id: 0, rx_packet_base_id: 0,
            tx_bandwidth_limit: 100_000,
            tx_alloc_limit: 1_000_000, rx_alloc_limit: rx_alloc,
            keepalive_interval_ms: Some(5000),
        }
    }

    // D1: hostile datagram claiming more fragments than the receive allocation allows
    #[test]
    fn d1_over_limit_fragment_count() {
        let mut hc = HalfConnection::new(cfg(10_000));
        let dg = Datagram { sequence_id: 0, channel_id: 0, window_parent_lead: 0, channel_parent_lead: 0,
                            fragment_id: 0, fragment_id_last: 65535, data: vec![0u8; MAX_FRAGMENT_SIZE].into_boxed_slice() };
        hc.handle_data_frame(DataFrame { sequence_id: 0, nonce: false, datagrams: vec![dg] });
        let mut sink = NullPacketSink(0);
        hc.receive(&mut sink);
    }

    // D6: ack frame whose packet window base has bits above 2^20
    #[test]
    fn d6_unmasked_packet_window_base() {
        let mut hc = HalfConnection::new(cfg(10_000));
        hc.handle_ack_frame(AckFrame { frame_window_base_id: 0, packet_window_base_id: 0x0010_0000, frame_acks: vec![] });
    }

    // D7: sync frame whose next_packet_id has bits above 2^20
    #[test]
    fn d7_unmasked_next_packet_id() {
        let mut hc = HalfConnection::new(cfg(10_000));
        hc.handle_sync_frame(SyncFrame { next_frame_id: None, next_packet_id: Some(0x0010_0000) });
    }

    // D2: ack ahead of an unsent fragment, then flush (watchdog: must return within 5 s)
    #[test]
    fn d2_ack_ahead_of_unsent_fragment() {
        let (tx, rx) = std::sync::mpsc::channel();
        std::thread::spawn(move || {
            let mut hc = HalfConnection::new(cfg(10_000));
            let mut sink = NullFrameSink(0);
            hc.send(vec![0u8; MAX_FRAGMENT_SIZE + 1].into_boxed_slice(), 0, SendMode::Persistent);
            hc.flush_alloc = 1;
            hc.emit_frames(0, 100, 400, 0, &mut sink);
            assert_eq!(sink.0, 1);
            hc.handle_ack_frame(AckFrame { frame_window_base_id: 0, packet_window_base_id: 1, frame_acks: vec![] });
            hc.flush_alloc = 100_000;
            hc.emit_frames(1, 100, 400, 0, &mut sink);
            tx.send(sink.0).unwrap();
        });
        match rx.recv_timeout(std::time::Duration::from_secs(5)) {
            Ok(n) => println!("returned after {} frames", n),
            Err(_) => panic!("HANG: emit_frames did not return within 5 s"),
        }
    }

    // D8: a replayed ack group yields a bogus RTT sample
    #[test]
    fn d8_replayed_ack() {
        let mut hc = HalfConnection::new(cfg(10_000));
        let mut sink = NullFrameSink(0);
        hc.send(vec![1u8; 10].into_boxed_slice(), 0, SendMode::Unreliable);
        hc.flush_alloc = 10_000;
        hc.emit_frames(1000, 100, 400, 0, &mut sink);
        let nonce = hc.frame_queue.frame_log_nonce_for_test(0);
        let g = AckGroup { base_id: 0, bitfield: 1, nonce };
        hc.frame_queue.acknowledge_group(g.clone(), None);
        let fb1 = hc.frame_queue.get_feedback(1050);
        println!("first feedback: {:?}", fb1);
        assert_eq!(fb1.as_ref().unwrap().rtt_ms, 50);
        hc.frame_queue.acknowledge_group(g, None);     // exact replay
        let fb2 = hc.frame_queue.get_feedback(60_000);
        println!("feedback after replay: {:?}", fb2);
        assert!(fb2.is_none(), "replayed ack produced feedback: {:?}", fb2);
    }

    // D12: pending ack groups grow without bound while nothing is flushed
    #[test]
    fn d12_ack_queue_unbounded() {
        let mut hc = HalfConnection::new(cfg(10_000));
        for k in 0..100_000u32 {
            hc.handle_data_frame(DataFrame { sequence_id: k * 32, nonce: false, datagrams: vec![] });
        }
        println!("pending ack groups after 100000 sparse frames: {}", hc.frame_ack_queue.len_for_test());
        assert!(hc.frame_ack_queue.len_for_test() <= 2 * MAX_FRAME_WINDOW_SIZE as usize);
    }

    // D15: credit rounding lets the long-run rate exceed the ceiling under a fast step cadence
    #[test]
    fn d15_credit_rounding() {
        let mut c = cfg(10_000);
        c.tx_bandwidth_limit = 1472;                 // ceiling: one frame per second
        let mut hc = HalfConnection::new(c);
        // give the rate controller an RTT so that the bucket has a positive cap
        hc.send_rate_comp.notify_frame_sent(0);
        hc.send_rate_comp.step(100, Some(send_rate::FeedbackData { rtt_ms: 100, receive_rate: 1472, loss_rate: 0.0, rate_limited: false }), |_| {});
        let rate = hc.send_rate_comp.send_rate();
        let rtt = hc.send_rate_comp.rtt_s().unwrap();
        let base = time::Instant::now();
        hc.time_last_flushed = Some(base);
        hc.flush_alloc = -1_000_000;                 // deep debt, so the cap never interferes
        let steps = 25_000u64;                       // 10 s at 0.4 ms per step
        for k in 1..=steps {
            hc.fill_flush_alloc(base + time::Duration::from_micros(400 * k));
        }
        let credited = hc.flush_alloc + 1_000_000;
        let elapsed_s = (400 * steps) as f64 / 1e6;
        println!("rate={} B/s rtt={} s: credited {} B in {} s; literal bound rate*(t+rtt)+1472 = {}",
                 rate, rtt, credited, elapsed_s, rate * (elapsed_s + rtt) + 1472.0);
        assert!((credited as f64) <= rate * (elapsed_s + rtt) + 1472.0);
    }
}
