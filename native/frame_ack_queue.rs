//@file src/half_connection/frame_ack_queue.rs
//@props C06
#[cfg(test)]
mod verif_native {
    use super::*;

    // D12: pending ack groups must stay bounded while nothing is flushed
    #[test]
    fn verif_c06_d12_ack_queue_bounded() {
        let mut q = FrameAckQueue::new(4096, 0);
        for k in 0..100_000u32 {
            q.mark_seen(k * 32, false);
        }
        assert!(q.entries.len() <= 256, "pending ack groups: {}", q.entries.len());
    }
}
