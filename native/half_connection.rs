//@file src/half_connection/mod.rs
//@props C03 C06 C13
#[cfg(test)]
mod verif_native {
    use super::*;
    use crate::frame::{Datagram, DataFrame, AckFrame, SyncFrame, AckGroup};
    use crate::{MAX_FRAGMENT_SIZE, MAX_FRAME_WINDOW_SIZE, MAX_PACKET_WINDOW_SIZE};

    struct NullFrameSink(usize);
    impl FrameSink for NullFrameSink { fn send(&mut self, _d: &[u8]) { self.0 += 1; } }
    struct NullPacketSink(usize);
    impl PacketSink for NullPacketSink { fn send(&mut self, _d: Box<[u8]>) { self.0 += 1; } }

    fn cfg(rx_alloc: usize) -> Config {
        Config {
            tx_frame_window_size: MAX_FRAME_WINDOW_SIZE, rx_frame_window_size: MAX_FRAME_WINDOW_SIZE,
            tx_frame_base_id: 0, rx_frame_base_id: 0,
            tx_packet_window_size: MAX_PACKET_WINDOW_SIZE, rx_packet_window_size: MAX_PACKET_WINDOW_SIZE,
            tx_packet_base_id: 0, rx_packet_base_id: 0,
            tx_bandwidth_limit: 100_000,
            tx_alloc_limit: 1_000_000, rx_alloc_limit: rx_alloc,
            keepalive_interval_ms: Some(5000),
        }
    }

    // D1: hostile datagram claiming more fragments than the receive allocation allows
    #[test]
    fn verif_d1_over_limit_fragment_count() {
        let mut hc = HalfConnection::new(cfg(10_000));
        let dg = Datagram { sequence_id: 0, channel_id: 0, window_parent_lead: 0, channel_parent_lead: 0,
                            fragment_id: 0, fragment_id_last: 65535, data: vec![0u8; MAX_FRAGMENT_SIZE].into_boxed_slice() };
        hc.handle_data_frame(DataFrame { sequence_id: 0, nonce: false, datagrams: vec![dg] });
        let mut sink = NullPacketSink(0);
        hc.receive(&mut sink);
    }

    // D6: ack frame whose packet window base has bits above 2^20
    #[test]
    fn verif_d6_unmasked_packet_window_base() {
        let mut hc = HalfConnection::new(cfg(10_000));
        hc.handle_ack_frame(AckFrame { frame_window_base_id: 0, packet_window_base_id: 0x0010_0000, frame_acks: vec![] });
    }

    // D7: sync frame whose next_packet_id has bits above 2^20
    #[test]
    fn verif_d7_unmasked_next_packet_id() {
        let mut hc = HalfConnection::new(cfg(10_000));
        hc.handle_sync_frame(SyncFrame { next_frame_id: None, next_packet_id: Some(0x0010_0000) });
    }

    // D2: ack ahead of an unsent fragment, then flush (watchdog: must return within 5 s)
    #[test]
    fn verif_d2_ack_ahead_of_unsent_fragment() {
        let (tx, rx) = std::sync::mpsc::channel();
        std::thread::spawn(move || {
            let mut hc = HalfConnection::new(cfg(10_000));
            let mut sink = NullFrameSink(0);
            hc.send(vec![0u8; MAX_FRAGMENT_SIZE + 1].into_boxed_slice(), 0, SendMode::Persistent);
            hc.flush_alloc = 1;
            hc.emit_frames(0, 100, 400, 0, &mut sink);
            assert_eq!(sink.0, 1);
            hc.handle_ack_frame(AckFrame { frame_window_base_id: 0, packet_window_base_id: 1, frame_acks: vec![] });
            hc.flush_alloc = 100_000;
            hc.emit_frames(1, 100, 400, 0, &mut sink);
            tx.send(sink.0).unwrap();
        });
        match rx.recv_timeout(std::time::Duration::from_secs(60)) {
            Ok(n) => println!("returned after {} frames", n),
            Err(_) => panic!("HANG: emit_frames did not return within 60 s"),
        }
    }



    // D15: credit rounding lets the long-run rate exceed the ceiling under a fast step cadence
    #[test]
    fn verif_d15_credit_rounding() {
        let mut c = cfg(10_000);
        c.tx_bandwidth_limit = 1472;                 // ceiling: one frame per second
        let mut hc = HalfConnection::new(c);
        // give the rate controller an RTT so that the bucket has a positive cap
        hc.send_rate_comp.notify_frame_sent(0);
        hc.send_rate_comp.step(100, Some(send_rate::FeedbackData { rtt_ms: 100, receive_rate: 1472, loss_rate: 0.0, rate_limited: false }), |_| {});
        let rate = hc.send_rate_comp.send_rate();
        let rtt = hc.send_rate_comp.rtt_s().unwrap();
        let base = time::Instant::now();
        hc.time_last_flushed = Some(base);
        hc.flush_alloc = -1_000_000;                 // deep debt, so the cap never interferes
        let steps = 25_000u64;                       // 10 s at 0.4 ms per step
        for k in 1..=steps {
            hc.fill_flush_alloc(base + time::Duration::from_micros(400 * k));
        }
        let credited = hc.flush_alloc + 1_000_000;
        let elapsed_s = (400 * steps) as f64 / 1e6;
        println!("rate={} B/s rtt={} s: credited {} B in {} s; literal bound rate*(t+rtt)+1472 = {}",
                 rate, rtt, credited, elapsed_s, rate * (elapsed_s + rtt) + 1472.0);
        assert!((credited as f64) <= rate * (elapsed_s + rtt) + 1472.0);
    }

    // C13 ledger at concrete points: whatever path hands a frame to the sink (acknowledgements incl. the sync reply, data,
    // sync) debits the flush credit by exactly the bytes sent (the unbounded statement is the Verus emission contract; this
    // is the witness the check falls back on when a changed emitter closure leaves the verifier undecided)
    struct CountingFrameSink { frames: usize, bytes: usize }
    impl FrameSink for CountingFrameSink { fn send(&mut self, d: &[u8]) { self.frames += 1; self.bytes += d.len(); } }

    #[test]
    fn verif_c13_every_emission_path_debits_the_credit() {
        // acknowledgement path: a pending sync reply plus three ack groups
        let mut hc = HalfConnection::new(cfg(10_000));
        for id in [0u32, 40, 90] { hc.handle_data_frame(DataFrame { sequence_id: id, nonce: false, datagrams: vec![] }); }
        hc.handle_sync_frame(SyncFrame { next_frame_id: None, next_packet_id: None });
        hc.flush_alloc = 10_000;
        let mut sink = CountingFrameSink { frames: 0, bytes: 0 };
        let _ = hc.emit_ack_frames(&mut sink);
        assert!(sink.frames >= 1, "an acknowledgement frame was due");
        assert_eq!(10_000 - hc.flush_alloc, sink.bytes as isize, "C13: ack frames debit the credit by the bytes sent");
        // data path: one packet of three fragments
        let mut hc = HalfConnection::new(cfg(10_000));
        hc.send(vec![7u8; 2 * MAX_FRAGMENT_SIZE + 10].into_boxed_slice(), 0, SendMode::Reliable);
        hc.flush_alloc = 10_000;
        let mut sink = CountingFrameSink { frames: 0, bytes: 0 };
        let _ = hc.emit_data_frames(0, 100, 0, &mut sink);
        assert_eq!(sink.frames, 3, "three data frames");
        assert_eq!(10_000 - hc.flush_alloc, sink.bytes as isize, "C13: data frames debit the credit by the bytes sent");
        // sync path
        let mut hc = HalfConnection::new(cfg(10_000));
        hc.send(vec![1u8; 10].into_boxed_slice(), 0, SendMode::Unreliable);
        hc.flush_alloc = 10_000;
        let mut sink = CountingFrameSink { frames: 0, bytes: 0 };
        let _ = hc.emit_data_frames(0, 100, 0, &mut sink);
        let (b0, a0) = (sink.bytes, hc.flush_alloc);
        let _ = hc.emit_sync_frame(10_000, 100, &mut sink);
        assert_eq!(sink.frames, 2, "a sync frame was due");
        assert_eq!(a0 - hc.flush_alloc, (sink.bytes - b0) as isize, "C13: the sync frame debits the credit by the bytes sent");
    }
}
