//@file src/half_connection/send_rate.rs
//@props C03 C14
#[cfg(test)]
mod verif_native {
    use super::*;

    fn with_watchdog<F: FnOnce() + Send + 'static>(f: F) -> bool {
        let (tx, rx) = std::sync::mpsc::channel();
        std::thread::spawn(move || { f(); let _ = tx.send(()); });
        rx.recv_timeout(std::time::Duration::from_secs(60)).is_ok()
    }

    #[test]
    fn verif_d5_bisection_zero_rtt() {
        assert!(with_watchdog(|| { let _ = eval_tcp_throughput_inv(0.0, 736); }), "HANG: rtt = 0");
    }

    #[test]
    fn verif_d5_bisection_unreachable_target() {
        // at rtt = 0.1 s the equation cannot go below ~60 B/s (p = 1); target 11 B/s = (MINIMUM_RATE)/2
        assert!(with_watchdog(|| { let _ = eval_tcp_throughput_inv(0.1, 11); }), "HANG: target below the p = 1 rate");
    }

    #[test]
    fn verif_d13_zero_ceiling_overflow() {
        let mut c = SendRateComp::new(0);        // peer advertised max_receive_rate = 0
        c.notify_frame_sent(0);
        c.step(10, Some(FeedbackData { rtt_ms: 10, receive_rate: 1000, loss_rate: 0.0, rate_limited: false }), |_| {});
        println!("send_rate = {}, rto_ms = {:?}", c.send_rate(), c.rto_ms());
        c.step(20, Some(FeedbackData { rtt_ms: 10, receive_rate: 1000, loss_rate: 0.0, rate_limited: false }), |_| {});
        println!("second feedback: send_rate = {}, rto_ms = {:?}", c.send_rate(), c.rto_ms());
    }

    #[test]
    fn verif_d14_floor_after_nofeedback() {
        let mut c = SendRateComp::new(1_000_000);
        c.notify_frame_sent(0);
        // first feedback with loss: enters the throughput-equation phase
        c.step(500, Some(FeedbackData { rtt_ms: 500, receive_rate: 100_000, loss_rate: 0.5, rate_limited: false }), |_| {});
        // heavy loss, long RTT: X_Bps = s / (R * f(1)) = 1472 / (0.5 * 243.3) = 12 B/s
        c.step(1000, Some(FeedbackData { rtt_ms: 500, receive_rate: 100_000, loss_rate: 1.0, rate_limited: false }), |_| {});
        println!("after feedback: X = {}", c.send_rate());
        assert!(c.send_rate() >= MINIMUM_RATE as f64);
        // silence: the no-feedback timer fires
        c.step(1_000_000, None, |_| {});
        println!("after no-feedback expiry: X = {}", c.send_rate());
        assert!(c.send_rate() >= MINIMUM_RATE as f64, "rate {} fell below the s/64 floor {}", c.send_rate(), MINIMUM_RATE);
    }
}
