//@file src/half_connection/packet_receiver/mod.rs
//@props C03 C01
#[cfg(test)]
mod verif_native {
    use super::*;

    struct CountSink(Vec<Box<[u8]>>);
    impl PacketSink for CountSink { fn send(&mut self, d: Box<[u8]>) { self.0.push(d); } }

    fn dg(seq: u32, ch: u8, wpl: u16, cpl: u16, byte: u8) -> frame::Datagram {
        frame::Datagram { sequence_id: seq, channel_id: ch, window_parent_lead: wpl, channel_parent_lead: cpl,
                          fragment_id: 0, fragment_id_last: 0, data: vec![byte].into_boxed_slice() }
    }

    // D16: inconsistent parent leads from a hostile peer (channel parent claimed on another channel's id):
    // the window must not advance past a packet that is still awaiting delivery
    #[test]
    fn verif_d16_window_never_passes_undelivered_packet() {
        let mut rx = PacketReceiver::new(4096, 0, 100000);
        rx.handle_datagram(dg(0, 1, 0, 0, 0xAA));
        rx.handle_datagram(dg(1, 0, 1, 1, 0xBB));
        let mut sink = CountSink(Vec::new());
        rx.receive(&mut sink);
        // packet 1 is either delivered or still inside the window
        let delivered_1 = sink.0.iter().any(|d| d[0] == 0xBB);
        assert!(delivered_1 || packet_id::sub(1, rx.base_id()) < 4096 && rx.base_id() <= 1,
                "window base {} moved past undelivered packet 1 (delivered: {:?})", rx.base_id(), sink.0);
    }
}
