//@integration verif_replay_d9
//@props C10
// D9: client deadline measured from client creation instead of from the last received frame
use std::time::{Duration, Instant};

#[test]
fn verif_d9_client_times_out_right_after_late_handshake() {
    let server_addr = "127.0.0.1:18991";
    let mut ccfg: uflow::client::Config = Default::default();
    ccfg.endpoint_config.active_timeout_ms = 1500;      // 1.5 s of silence allowed
    ccfg.endpoint_config.keepalive = true;
    ccfg.endpoint_config.keepalive_interval_ms = 200;
    // client first: its first SYN is lost (no server yet); it resends after 2 s
    let mut client = uflow::client::Client::connect(server_addr, ccfg).unwrap();
    let t0 = Instant::now();
    let mut server: Option<uflow::server::Server> = None;
    let mut connected_at = None;
    let mut timed_out_at = None;
    // scheduler stalls (a loaded machine) make this wall-clock scenario meaningless: a gap of more than 400 ms between two
    // iterations can by itself produce a legitimate timeout or a missed handshake, so such a run is inconclusive, not a failure
    let mut last_iter = Instant::now();
    let mut max_gap = Duration::from_millis(0);
    while t0.elapsed() < Duration::from_millis(3200) {
        let gap = last_iter.elapsed(); if gap > max_gap { max_gap = gap; } last_iter = Instant::now();
        if server.is_none() && t0.elapsed() > Duration::from_millis(1000) {
            let mut scfg: uflow::server::Config = Default::default();
            scfg.endpoint_config.keepalive = true;
            scfg.endpoint_config.keepalive_interval_ms = 200;
            server = Some(uflow::server::Server::bind(server_addr, scfg).unwrap());
        }
        if let Some(s) = server.as_mut() { for _ in s.step() {} s.flush(); }
        for ev in client.step() {
            match ev {
                uflow::client::Event::Connect => connected_at = Some(t0.elapsed()),
                uflow::client::Event::Error(uflow::client::ErrorType::Timeout) => timed_out_at = Some(t0.elapsed()),
                _ => {}
            }
        }
        client.flush();
        std::thread::sleep(Duration::from_millis(10));
    }
    println!("connected_at={:?} timed_out_at={:?} max_gap={:?}", connected_at, timed_out_at, max_gap);
    if max_gap > Duration::from_millis(400) { println!("inconclusive: the test thread was stalled for {:?}", max_gap); return; }
    assert!(connected_at.is_some(), "handshake did not complete");
    if let (Some(c), Some(t)) = (connected_at, timed_out_at) {
        panic!("client reported Timeout {:?} after Connect although frames were just received (deadline not offset by now_ms)", t - c);
    }
}
