//@file src/half_connection/packet_receiver/mod.rs
//@props C19
// C19 at the level no loopback scenario reaches deterministically: a receiver that holds PARTIALLY assembled packets is
// dropped, resynchronised past them, or completes them - in every case all the memory it obtained is back when it is gone
// (per-thread balance of the Layout sizes passed to alloc/dealloc, and the number of live blocks: a wrong-size release, a leak
// and a block parked somewhere outside the connection all unbalance it). BOUNDED: four concrete scenarios.
#[cfg(test)]
mod verif_native_heap {
    use super::*;
    use std::alloc::{GlobalAlloc, Layout, System};
    use std::cell::Cell;

    thread_local! {
        static LIVE: Cell<isize> = const { Cell::new(0) };
        static BLOCKS: Cell<isize> = const { Cell::new(0) };
    }
    struct Counting;
    unsafe impl GlobalAlloc for Counting {
        unsafe fn alloc(&self, l: Layout) -> *mut u8 {
            let p = System.alloc(l);
            if !p.is_null() {
                let _ = LIVE.try_with(|c| c.set(c.get() + l.size() as isize));
                let _ = BLOCKS.try_with(|c| c.set(c.get() + 1));
            }
            p
        }
        unsafe fn dealloc(&self, p: *mut u8, l: Layout) {
            let _ = LIVE.try_with(|c| c.set(c.get() - l.size() as isize));
            let _ = BLOCKS.try_with(|c| c.set(c.get() - 1));
            System.dealloc(p, l)
        }
        unsafe fn realloc(&self, p: *mut u8, l: Layout, new_size: usize) -> *mut u8 {
            let q = System.realloc(p, l, new_size);
            if !q.is_null() { let _ = LIVE.try_with(|c| c.set(c.get() + new_size as isize - l.size() as isize)); }
            q
        }
    }
    #[global_allocator]
    static A: Counting = Counting;
    fn live() -> (isize, isize) { (LIVE.with(|c| c.get()), BLOCKS.with(|c| c.get())) }

    struct Sink(usize);
    impl PacketSink for Sink { fn send(&mut self, d: Box<[u8]>) { self.0 += d.len(); } }

    fn frag(seq: u32, id: u16, last: u16, len: usize) -> frame::Datagram {
        frame::Datagram { sequence_id: seq, channel_id: 0, window_parent_lead: 0, channel_parent_lead: 0,
                          fragment_id: id, fragment_id_last: last, data: vec![seq as u8; len].into_boxed_slice() }
    }

    fn dropped_with_partial_packets() {
        let mut rx = PacketReceiver::new(64, 0, 1_000_000);
        rx.handle_datagram(frag(0, 0, 2, 1448));          // 1 of 3
        rx.handle_datagram(frag(1, 1, 4, 1448));          // 1 of 5, out of order
        rx.handle_datagram(frag(1, 4, 4, 100));           // short last fragment
        rx.handle_datagram(frag(2, 0, 0, 10));            // complete, never delivered
    }
    fn resynchronised_past_partial_packets() {
        let mut rx = PacketReceiver::new(64, 0, 1_000_000);
        rx.handle_datagram(frag(0, 0, 2, 1448));
        rx.handle_datagram(frag(3, 1, 1, 7));
        rx.resynchronize(10);
        let mut s = Sink(0);
        rx.receive(&mut s);
        rx.handle_datagram(frag(10, 0, 1, 1448));         // a new partial packet in a reused part of the window
    }
    fn completed_and_delivered() {
        let mut rx = PacketReceiver::new(64, 0, 1_000_000);
        rx.handle_datagram(frag(0, 1, 1, 5));
        rx.handle_datagram(frag(0, 0, 1, 1448));
        rx.handle_datagram(frag(1, 0, 0, 0));             // zero-length packet
        let mut s = Sink(0);
        rx.receive(&mut s);
        assert_eq!(s.0, 1453);
    }
    fn refused_for_lack_of_allocation() {
        let mut rx = PacketReceiver::new(64, 0, 2000);
        rx.handle_datagram(frag(0, 0, 9, 1448));          // 10 fragments > limit: placeholder only
        rx.handle_datagram(frag(1, 0, 1, 1448));
        let mut s = Sink(0);
        rx.receive(&mut s);
    }

    #[test]
    fn verif_c19_receiver_returns_all_memory() {
        let scenarios: [(&str, fn()); 4] = [
            ("dropped while holding partially assembled packets", dropped_with_partial_packets),
            ("resynchronised past partially assembled packets, then dropped", resynchronised_past_partial_packets),
            ("packets completed and delivered", completed_and_delivered),
            ("packet refused for lack of receive allocation", refused_for_lack_of_allocation)];
        // warm-up with a scenario that never abandons a partially assembled packet (lazily initialised state of std / the test
        // harness); the measured scenarios are NOT run beforehand, so a block that a connection leaves behind somewhere else
        // (a recycling cache, a static) shows up even if that place only ever holds one block
        completed_and_delivered();
        for (name, f) in scenarios.iter() {
            let (b0, n0) = live();
            f();
            let (b1, n1) = live();
            assert!(b1 == b0 && n1 == n0, "C19 {}: {} bytes in {} blocks were not returned", name, b1 - b0, n1 - n0);
        }
    }
}
