//@file src/half_connection/packet_receiver/mod.rs
//@props C03 C06 C01 C02 C04
// T9 cover for the trusted contract of PacketReceiver::new (contracts/packet_receiver.vspec): TESTED on samples, not proved.
#[cfg(test)]
mod verif_t9_packet_receiver_new {
    use super::*;
    #[test]
    fn verif_t9_packet_receiver_new_contract() {
        for &ws in [1u32, 2, 64, 4096].iter() {
            for &base in [0u32, 5, 0xFFFFF].iter() {
                let r = PacketReceiver::new(ws, base, 100_000);
                let n = ws as usize;
                assert!(r.base_id == base && r.end_id == base && r.receive_window_size == ws && r.receive_window_mask == ws - 1);
                assert!(r.channel_entries.len() == n && r.window_entries.len() == n && r.data_entries.len() == n && r.channel_base_markers.len() == n);
                assert!(r.entry_flags.len() == (n + 63) / 64 && r.data_flags.len() == (n + 63) / 64);
                assert!(r.entry_flags.iter().all(|w| *w == 0) && r.data_flags.iter().all(|w| *w == 0));
                assert!(r.data_entries.iter().all(|e| e.data.is_none()));
                assert!(r.channel_base_markers.iter().all(|m| m.is_none()));
                assert!(r.channels.len() == 64 && r.channels.iter().all(|c| c.base_id.is_none() && c.packet_count == 0));
                assert!(r.channel_ready_flags == 0 && !r.window_ready_flag);
            }
        }
    }
}
