//@file src/client/mod.rs
//@props C03
// D17: SYN-ACK echoing the client's nonce with max_receive_alloc = 0 (peer-controlled): queued send panics in step() (dev profile,
// packet_sender.rs:140 debug_assert!(data.len() <= self.max_alloc)); release profile: the packet is never transmitted.
#[cfg(test)]
mod verif_native {
    use super::*;
    use std::time::Duration;

    // A SYN-ACK that echoes our nonce but advertises max_receive_alloc = 0 (peer-controlled field).
    fn run(max_receive_alloc: u32) -> (Client, std::net::UdpSocket) {
        let srv = std::net::UdpSocket::bind("127.0.0.1:0").unwrap();
        srv.set_read_timeout(Some(Duration::from_millis(5000))).unwrap();
        let mut client = Client::connect(srv.local_addr().unwrap(), Default::default()).unwrap();
        // valid API call: 1 byte <= max_packet_size, channel 0; queued while the handshake is pending
        client.send(Box::new([1u8]), 0, SendMode::Reliable);
        let mut buf = [0u8; 1500];
        let (n, from) = srv.recv_from(&mut buf).unwrap();
        let syn = match frame::Frame::read(&buf[..n]) { Some(frame::Frame::HandshakeSynFrame(f)) => f, _ => panic!("no syn") };
        let reply = frame::Frame::HandshakeSynAckFrame(frame::HandshakeSynAckFrame {
            nonce_ack: syn.nonce, nonce: 7, max_receive_rate: 1_000_000, max_packet_size: 1_000_000, max_receive_alloc });
        srv.send_to(&reply.write(), from).unwrap();
        std::thread::sleep(Duration::from_millis(50));
        (client, srv)
    }

    #[test]
    fn verif_d17_syn_ack_with_zero_receive_alloc() {
        let (mut client, srv) = run(0);
        let mut connected = false;
        let mut refused = false;
        let mut data_frames = 0;
        for _ in 0..40 {
            for ev in client.step() {   // debug profile: panicked here before the fix
                match ev { Event::Connect => connected = true, Event::Error(_) => refused = true, _ => () }
            }
            client.flush();
            let mut buf = [0u8; 1500];
            srv.set_read_timeout(Some(Duration::from_millis(20))).unwrap();
            while let Ok((n, _)) = srv.recv_from(&mut buf) {
                if let Some(frame::Frame::DataFrame(_)) = frame::Frame::read(&buf[..n]) { data_frames += 1; }
            }
        }
        println!("connected={} data_frames_seen={} send_buffer_size={}", connected, data_frames, client.send_buffer_size());
        assert!(refused || data_frames > 0, "release profile: the queued packet is never transmitted (send queue blocked forever)");
    }
}
