//@file src/half_connection/frame_queue.rs
//@props C15
#[cfg(test)]
mod verif_native {
    use super::*;

    // D8: a replayed ack group must not produce feedback (it yielded a bogus RTT sample = now_ms)
    #[test]
    fn verif_c15_d8_replayed_ack() {
        let mut fq = FrameQueue::new(4096, 4096, 0);
        fq.push(10, 1000, Vec::new().into_boxed_slice(), true);
        let g = frame::AckGroup { base_id: 0, bitfield: 1, nonce: true };
        fq.acknowledge_group(g.clone(), None);
        let fb1 = fq.get_feedback(1050);
        assert_eq!(fb1.as_ref().unwrap().rtt_ms, 50);
        fq.acknowledge_group(g, None);     // exact replay
        let fb2 = fq.get_feedback(60_000);
        assert!(fb2.is_none(), "replayed ack produced feedback: {:?}", fb2);
    }

    // wrong nonce / unknown frame: no feedback, frame stays unacknowledged
    #[test]
    fn verif_c15_bad_nonce_and_unknown_frame() {
        let mut fq = FrameQueue::new(4096, 4096, 0);
        fq.push(10, 1000, Vec::new().into_boxed_slice(), true);
        fq.acknowledge_group(frame::AckGroup { base_id: 0, bitfield: 1, nonce: false }, None);
        assert!(fq.get_feedback(2000).is_none());
        fq.acknowledge_group(frame::AckGroup { base_id: 0, bitfield: 3, nonce: true }, None);
        assert!(fq.get_feedback(2000).is_none());
        assert!(!fq.frame_log.get_frame(0).unwrap().acked);
    }
}
