//@file src/half_connection/frame_queue.rs
//@props C15 C03 C12 C02
#[cfg(test)]
mod verif_native {
    use super::*;

    // D8: a replayed ack group must not produce feedback (it yielded a bogus RTT sample = now_ms)
    #[test]
    fn verif_c15_d8_replayed_ack() {
        let mut fq = FrameQueue::new(4096, 4096, 0);
        fq.push(10, 1000, Vec::new().into_boxed_slice(), true);
        let g = frame::AckGroup { base_id: 0, bitfield: 1, nonce: true };
        fq.acknowledge_group(g.clone(), None);
        let fb1 = fq.get_feedback(1050);
        assert_eq!(fb1.as_ref().unwrap().rtt_ms, 50);
        fq.acknowledge_group(g, None);     // exact replay
        let fb2 = fq.get_feedback(60_000);
        assert!(fb2.is_none(), "replayed ack produced feedback: {:?}", fb2);
    }

    // wrong nonce / unknown frame: no feedback, frame stays unacknowledged
    #[test]
    fn verif_c15_bad_nonce_and_unknown_frame() {
        let mut fq = FrameQueue::new(4096, 4096, 0);
        fq.push(10, 1000, Vec::new().into_boxed_slice(), true);
        fq.acknowledge_group(frame::AckGroup { base_id: 0, bitfield: 1, nonce: false }, None);
        assert!(fq.get_feedback(2000).is_none());
        fq.acknowledge_group(frame::AckGroup { base_id: 0, bitfield: 3, nonce: true }, None);
        assert!(fq.get_feedback(2000).is_none());
        assert!(!fq.frame_log.get_frame(0).unwrap().acked);
    }

    // an ack group whose span starts on a frame the sender has already forgotten (bit 0 clear, a higher bit naming a
    // frame that is still logged, either nonce): must be ignored without panicking
    #[test]
    fn verif_c15_span_starting_on_forgotten_frame() {
        for nonce in [false, true] {
            let mut fq = FrameQueue::new(4096, 4096, 0);
            fq.push(10, 1000, Vec::new().into_boxed_slice(), true);
            fq.push(10, 5000, Vec::new().into_boxed_slice(), true);
            fq.push(10, 5000, Vec::new().into_boxed_slice(), false);
            fq.forget_frames(2000, None);                       // frame 0 (sent at 1000) is forgotten
            assert!(fq.frame_log.get_frame(0).is_none() && fq.frame_log.get_frame(1).is_some());
            fq.acknowledge_group(frame::AckGroup { base_id: 0, bitfield: 0b10, nonce }, None);
            assert!(fq.get_feedback(6000).is_none(), "ack group covering a forgotten frame produced feedback");
            assert!(!fq.frame_log.get_frame(1).unwrap().acked);
        }
    }

    // cover of the TRUSTED contracts of FrameLog::push / FrameLog::drain (frame_queue.vspec; pinned): ids are 32-bit ring
    // positions, the log may straddle the wrap 0xFFFFFFFF -> 0
    #[test]
    fn verif_t_framelog_push_drain_across_wrap() {
        for &base in [0u32, 7, 0xFFFF_FFFC, 0xFFFF_FFFF].iter() {
            let mut log = FrameLog::new(base);
            for k in 0..8u32 {
                log.push(Entry { size: 10 + k, send_time_ms: 100 + k as u64, fragment_refs: Vec::new().into_boxed_slice(), nonce: k % 2 == 0, rate_limited: false, acked: false });
                assert_eq!(log.next_id(), base.wrapping_add(k + 1));
                assert_eq!(log.len(), k + 1);
            }
            for d in 0..=8u32 {
                let mut l2 = FrameLog::new(base);
                for k in 0..8u32 { l2.push(Entry { size: 10 + k, send_time_ms: 100 + k as u64, fragment_refs: Vec::new().into_boxed_slice(), nonce: false, rate_limited: false, acked: false }); }
                l2.drain(base.wrapping_add(d));
                assert_eq!(l2.base_id(), base.wrapping_add(d), "drain moves the base to the given id");
                assert_eq!(l2.len(), 8 - d, "drain removes exactly the ids before it (base {:#x}, d {})", base, d);
                assert_eq!(l2.next_id(), base.wrapping_add(8));
                for k in d..8 { assert_eq!(l2.get_frame(base.wrapping_add(k)).unwrap().size, 10 + k, "remaining entries keep their ids"); }
                assert!(l2.get_frame(base.wrapping_add(8)).is_none());
            }
        }
    }
    // C02/C12 enabling step: the frame window test compares DISTANCES from the window base, so it keeps working when the 32-bit
    // frame id wraps (a comparison of absolute ids goes permanently false once base + size wraps: nothing is ever sent again)
    #[test]
    fn verif_c02_can_push_across_frame_id_wrap() {
        for &base in &[0u32, 1, u32::MAX - 4096, u32::MAX - 4095, u32::MAX - 10, u32::MAX - 1, u32::MAX] {
            let mut fq = FrameQueue::new(8, 8, base);
            for k in 0..8u32 {
                assert!(fq.can_push(), "base {:#x}: frame {} of 8 refused", base, k);
                assert_eq!(fq.next_id(), base.wrapping_add(k));
                fq.push(10, 1000 + k as u64, Vec::new().into_boxed_slice(), false);
            }
            assert!(!fq.can_push(), "base {:#x}: a ninth frame fits an 8-frame window", base);
        }
    }
}

