//@file src/half_connection/packet_receiver/assembly_window/mod.rs
//@props C03 C06 C04 C02 C09
// T9 cover for the trusted contract of AssemblyWindow::new (contracts/assembly_window.vspec).
// Append this module to src/half_connection/packet_receiver/assembly_window/mod.rs of a scratch copy and run
//   cargo test --offline --lib t9_assembly_window_new
// (tested, not proved: the constructor uses `(0..n).map(|_| ..).collect()`, which Verus rejects.)
#[cfg(test)]
mod verif_t9_assembly_window_new {
    use super::*;

    fn check(limit: usize) {
        let w = AssemblyWindow::new(limit);
        // window.len() == 4096, all Open
        assert_eq!(w.window.len(), 4096);
        assert!(w.window.iter().all(|e| match e { WindowEntry::Open => true, _ => false }));
        // alloc == 0, max_alloc == ceil(limit/1448)*1448
        assert_eq!(w.alloc, 0);
        assert_eq!(w.max_alloc, ((limit + 1447) / 1448) * 1448);
        assert_eq!(w.max_alloc % 1448, 0);
        assert!(w.max_alloc >= limit && w.max_alloc < limit + 1448);
    }

    #[test]
    fn verif_t9_assembly_window_new_contract() {
        for limit in [0usize, 1, 1447, 1448, 1449, 2 * 1448, 100_000, 1_000_000, 94_896_128,
                      u32::MAX as usize, usize::MAX - 94_896_128 - 1448] {
            check(limit);
        }
    }
}
