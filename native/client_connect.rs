//@file src/client/mod.rs
//@props C07 C09 C10
// Witness tests for Client::connect (not provable today: see contracts/client_connect.vspec.proposal): the SYN advertises
// the configured limits saturated to 32 bits together with the nonce the Pending state remembers; initial retry state.
#[cfg(test)]
mod verif_native_connect {
    use super::*;
    use std::time::Duration;

    fn sat(x: usize) -> u32 { if x > u32::MAX as usize { u32::MAX } else { x as u32 } }

    fn check(max_receive_rate: usize, max_receive_alloc: usize) {
        let srv = std::net::UdpSocket::bind("127.0.0.1:0").unwrap();
        srv.set_read_timeout(Some(Duration::from_millis(5000))).unwrap();
        let mut cfg: Config = Default::default();
        cfg.endpoint_config.max_receive_rate = max_receive_rate;
        cfg.endpoint_config.max_receive_alloc = max_receive_alloc;
        let max_packet_size = cfg.endpoint_config.max_packet_size;
        let client = Client::connect(srv.local_addr().unwrap(), cfg).unwrap();
        let mut buf = [0u8; 1500];
        let (n, _) = srv.recv_from(&mut buf).unwrap();
        let syn = match frame::Frame::read(&buf[..n]) { Some(frame::Frame::HandshakeSynFrame(f)) => f, _ => panic!("no SYN") };
        assert_eq!(syn.version, PROTOCOL_VERSION);
        assert_eq!(syn.max_receive_rate, sat(max_receive_rate), "advertised max_receive_rate");
        assert_eq!(syn.max_packet_size, sat(max_packet_size), "advertised max_packet_size");
        assert_eq!(syn.max_receive_alloc, sat(max_receive_alloc), "advertised max_receive_alloc for {}", max_receive_alloc);
        match client.state {
            State::Pending(ref p) => {
                assert_eq!(p.local_nonce, syn.nonce);
                assert_eq!(&p.request_bytes[..], &buf[..n]);
                assert_eq!(p.resend_time_ms, HANDSHAKE_RESEND_INTERVAL_MS);
                assert_eq!(p.resend_count, HANDSHAKE_RESEND_COUNT);
                assert!(p.initial_sends.is_empty());
            }
            _ => panic!("not Pending"),
        }
        assert!(client.events_out.is_empty());
    }

    #[test]
    fn verif_connect_syn_advertises_saturated_limits() {
        #[cfg(target_pointer_width = "64")]
        let big: [usize; 4] = [u32::MAX as usize, (1usize << 32), (1usize << 32) + 5, usize::MAX / 2];
        #[cfg(not(target_pointer_width = "64"))]
        let big: [usize; 1] = [u32::MAX as usize];
        for &v in [1usize, 1_000_000].iter().chain(big.iter()) {
            check(2_000_000, v);
            check(v, 1_000_000);
        }
    }
}
