//@file src/half_connection/packet_sender.rs
//@props C01 C12
#[cfg(test)]
mod verif_native {
    use super::*;

    // C01 (submission order): sequence ids are handed out in queue order. When the head of the queue does not fit the
    // receiver's remaining allocation, NOTHING is emitted - a smaller packet behind it must not overtake it.
    #[test]
    fn verif_c01_head_of_line_blocks_when_allocation_is_short() {
        // room for three fragments at the receiver
        let mut tx = PacketSender::new(4096, 0, 3 * 1448);
        tx.enqueue_packet(vec![1u8; 2 * 1448].into_boxed_slice(), 0, SendMode::Reliable, 0);   // 2 fragments
        tx.enqueue_packet(vec![2u8; 2 * 1448].into_boxed_slice(), 0, SendMode::Reliable, 0);   // 2 fragments: does not fit behind the first
        tx.enqueue_packet(vec![3u8; 10].into_boxed_slice(), 0, SendMode::Reliable, 0);         // would fit
        let (p0, _) = tx.emit_packet(0).expect("the head fits");
        assert_eq!(p0.borrow().size(), 2 * 1448);
        assert_eq!(p0.borrow().sequence_id(), 0);
        // head (packet #2) needs 2 fragments, 1 is left: nothing may leave, in particular not packet #3
        assert!(tx.emit_packet(0).is_none(), "a later packet overtook the head of the send queue");
        assert_eq!(tx.pending_count(), 2);
        // the receiver moved past packet 0: now #2 goes first, then #3, with consecutive ids
        tx.acknowledge(1);
        let (p1, _) = tx.emit_packet(0).expect("head fits after the acknowledgement");
        assert_eq!((p1.borrow().sequence_id(), p1.borrow().size()), (1, 2 * 1448));
        let (p2, _) = tx.emit_packet(0).expect("third packet");
        assert_eq!((p2.borrow().sequence_id(), p2.borrow().size()), (2, 10));
    }
}
