//@integration verif_c19_teardown
//@props C19
// C19 whole-endpoint teardown accounting (the part no Kani harness reaches): a counting global allocator (per-thread
// balance of live bytes; endpoints run on the test thread) and five scenarios over loopback, each run once to
// warm up lazily initialised std state and then again: the second run must return the thread's live bytes to where they
// were (bytes by the Layout sizes passed to alloc/dealloc, so a deallocation with a wrong size unbalances it as well, and the
// number of live allocations).  BOUNDED: five concrete scenarios, real sockets on ephemeral ports.
use std::alloc::{GlobalAlloc, Layout, System};
use std::cell::Cell;
use std::time::{Duration, Instant};

thread_local! {
    static LIVE: Cell<isize> = const { Cell::new(0) };
    static ALLOCS: Cell<isize> = const { Cell::new(0) };
}
struct Counting;
unsafe impl GlobalAlloc for Counting {
    unsafe fn alloc(&self, l: Layout) -> *mut u8 {
        let p = System.alloc(l);
        if !p.is_null() {
            let _ = LIVE.try_with(|c| c.set(c.get() + l.size() as isize));
            let _ = ALLOCS.try_with(|c| c.set(c.get() + 1));
        }
        p
    }
    unsafe fn dealloc(&self, p: *mut u8, l: Layout) {
        let _ = LIVE.try_with(|c| c.set(c.get() - l.size() as isize));
        let _ = ALLOCS.try_with(|c| c.set(c.get() - 1));
        System.dealloc(p, l)
    }
    unsafe fn realloc(&self, p: *mut u8, l: Layout, new_size: usize) -> *mut u8 {
        let q = System.realloc(p, l, new_size);
        if !q.is_null() {
            let _ = LIVE.try_with(|c| c.set(c.get() + new_size as isize - l.size() as isize));
        }
        q
    }
}
#[global_allocator]
static A: Counting = Counting;

fn live() -> (isize, isize) { (LIVE.with(|c| c.get()), ALLOCS.with(|c| c.get())) }

fn cfg(timeout_ms: u64) -> uflow::EndpointConfig {
    let mut e: uflow::EndpointConfig = Default::default();
    e.active_timeout_ms = timeout_ms;
    e
}
fn server(timeout_ms: u64) -> uflow::server::Server {
    let mut c: uflow::server::Config = Default::default();
    c.endpoint_config = cfg(timeout_ms);
    uflow::server::Server::bind("127.0.0.1:0", c).unwrap()
}
fn client(addr: std::net::SocketAddr, timeout_ms: u64) -> uflow::client::Client {
    let mut c: uflow::client::Config = Default::default();
    c.endpoint_config = cfg(timeout_ms);
    uflow::client::Client::connect(addr, c).unwrap()
}
fn payload(n: usize, tag: u8) -> Box<[u8]> { vec![tag; n].into_boxed_slice() }

/// step both ends for `ms` milliseconds; returns (server events seen, client events seen) as short strings
fn pump(s: &mut uflow::server::Server, c: Option<&mut uflow::client::Client>, ms: u64) -> (Vec<&'static str>, Vec<&'static str>) {
    let t0 = Instant::now();
    let mut se = Vec::new(); let mut ce = Vec::new();
    let mut c = c;
    while t0.elapsed() < Duration::from_millis(ms) {
        for ev in s.step() {
            se.push(match ev {
                uflow::server::Event::Connect(_) => "connect", uflow::server::Event::Disconnect(_) => "disconnect",
                uflow::server::Event::Receive(_, _) => "receive", uflow::server::Event::Error(_, _) => "error" });
        }
        if let Some(c) = c.as_deref_mut() {
            for ev in c.step() {
                ce.push(match ev {
                    uflow::client::Event::Connect => "connect", uflow::client::Event::Disconnect => "disconnect",
                    uflow::client::Event::Receive(_) => "receive", uflow::client::Event::Error(_) => "error" });
            }
        }
        std::thread::sleep(Duration::from_millis(2));
    }
    (se, ce)
}

/// A: the peer vanishes mid-transfer; the server's active timeout ends the connection while fragments are outstanding
fn scenario_timeout_mid_transfer() {
    let mut s = server(400);
    let addr = s.address();
    let mut c = client(addr, 5000);
    let (se, _) = pump(&mut s, Some(&mut c), 150);
    if !se.contains(&"connect") { eprintln!("note: A: no connection within 150 ms ({:?}); the balance is checked all the same", se); }
    // data in both directions, larger than one fragment, all four modes
    for (i, m) in [uflow::SendMode::Reliable, uflow::SendMode::Persistent, uflow::SendMode::Unreliable, uflow::SendMode::TimeSensitive].iter().enumerate() {
        c.send(payload(5000 + i, i as u8), i, *m);
        if let Some(rc) = s.client(&c.local_address()) { rc.borrow_mut().send(payload(7000 + i, 0x80 + i as u8), i, *m); }
    }
    pump(&mut s, Some(&mut c), 30);
    for i in 0..8 { if let Some(rc) = s.client(&c.local_address()) { rc.borrow_mut().send(payload(20000, i), 1, uflow::SendMode::Reliable); } }
    pump(&mut s, Some(&mut c), 10);
    drop(c);                                   // the peer vanishes without a word
    let (se, _) = pump(&mut s, None, 900);
    if !se.contains(&"error") { eprintln!("note: A: no timeout event within 900 ms ({:?}); the balance is checked all the same", se); }
}
/// B: graceful disconnect with flushing
fn scenario_graceful() {
    let mut s = server(5000);
    let addr = s.address();
    let mut c = client(addr, 5000);
    pump(&mut s, Some(&mut c), 150);
    for i in 0..6 { c.send(payload(3000 * (i + 1), i as u8), i, uflow::SendMode::Reliable); }
    c.disconnect();
    let (se, ce) = pump(&mut s, Some(&mut c), 600);
    if !(se.contains(&"disconnect") && ce.contains(&"disconnect")) { eprintln!("note: B: no disconnect within 600 ms ({:?} / {:?}); the balance is checked all the same", se, ce); }
}
/// C: a handshake that never completes (the client vanishes after its SYN); the server is dropped with the tentative entry
fn scenario_pending_dropped() {
    let mut s = server(5000);
    let addr = s.address();
    let c = client(addr, 5000);
    drop(c);
    pump(&mut s, None, 80);
}
/// D: the server is dropped while a client is connected and data is in flight
fn scenario_server_dropped_active() {
    let mut s = server(5000);
    let addr = s.address();
    let mut c = client(addr, 5000);
    pump(&mut s, Some(&mut c), 150);
    for i in 0..4 {
        c.send(payload(30000, i), 2, uflow::SendMode::Persistent);
        if let Some(rc) = s.client(&c.local_address()) { rc.borrow_mut().send(payload(30000, i), 3, uflow::SendMode::Reliable); }
    }
    pump(&mut s, Some(&mut c), 20);
    drop(s);
    drop(c);
}

/// the frame checksum, bit by bit (src/frame/serial/crc.rs: reflected polynomial 0x9960034C, register preset to all ones,
/// result complemented)
fn crc(data: &[u8]) -> u32 {
    let mut reg = !0u32;
    for &b in data { reg ^= b as u32; for _ in 0..8 { reg = if reg & 1 != 0 { (reg >> 1) ^ 0x9960034C } else { reg >> 1 }; } }
    !reg
}
/// one large-header datagram (14 bytes of header) with `len` payload bytes
fn large_datagram(seq: u32, len: usize) -> Vec<u8> {
    let mut d = vec![0xC0u8, (len >> 8) as u8, len as u8, (seq >> 16) as u8 & 0x0F, (seq >> 8) as u8, seq as u8, 0, 0, 0, 0, 0, 0, 0, 0];
    d.extend(std::iter::repeat(0x5A).take(len));
    d
}
fn data_frame(frame_id: u32, count: u8, body: &[u8]) -> Vec<u8> {
    let mut f = vec![10u8, (frame_id >> 24) as u8, (frame_id >> 16) as u8, (frame_id >> 8) as u8, frame_id as u8, count & 0x7F];
    f.extend_from_slice(body);
    let c = crc(&f);
    f.extend_from_slice(&c.to_be_bytes());
    f
}
/// E: CRC-valid data frames that turn out malformed only after a complete datagram was parsed (truncated second datagram,
/// over-announced count, trailing byte), from an address the server has never heard of: parsed and rejected, nothing kept
fn scenario_malformed_frames() {
    let mut s = server(5000);
    let peer = std::net::UdpSocket::bind("127.0.0.1:0").unwrap();
    let good = large_datagram(1, 1000);
    let mut truncated = good.clone(); truncated.extend_from_slice(&large_datagram(2, 1000)[..9]);
    let mut trailing = good.clone(); trailing.push(0);
    let frames = [data_frame(1, 2, &truncated), data_frame(2, 3, &good), data_frame(3, 1, &trailing), data_frame(4, 1, &good)];
    for _ in 0..8 {
        for f in frames.iter() { let _ = peer.send_to(f, s.address()); }
        pump(&mut s, None, 10);
    }
}

#[test]
fn verif_c19_endpoint_teardown_returns_all_memory() {
    assert_eq!(crc(b""), 0, "crc transcription");
    let scenarios: [(&str, fn()); 5] = [
        ("E malformed data frames from a stranger", scenario_malformed_frames),
        ("A timeout mid-transfer", scenario_timeout_mid_transfer), ("B graceful disconnect", scenario_graceful),
        ("C pending entry dropped", scenario_pending_dropped), ("D server dropped while active", scenario_server_dropped_active)];
    for (name, f) in scenarios.iter() {
        f();                                   // warm-up: lazily initialised std state is allocated here
        let (b0, n0) = live();
        f();
        let (b1, n1) = live();
        assert!(b1 == b0 && n1 == n0, "C19 scenario {}: {} bytes in {} allocations were not returned at teardown", name, b1 - b0, n1 - n0);
    }
}
