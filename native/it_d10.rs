//@integration verif_replay_d10
//@props C17
// D10: max_active_connections is not enforced
use std::time::{Duration, Instant};

#[test]
fn verif_d10_second_client_accepted_beyond_max_active() {
    // (a fixed port: the client needs the address before the server exists in D9; kept the same style here)
    let server_addr = "127.0.0.1:18992";
    let mut scfg: uflow::server::Config = Default::default();
    scfg.max_active_connections = 1;
    scfg.max_total_connections = 4096;
    let mut server = uflow::server::Server::bind(server_addr, scfg).unwrap();
    let mut c1 = uflow::client::Client::connect(server_addr, Default::default()).unwrap();
    let mut c2 = uflow::client::Client::connect(server_addr, Default::default()).unwrap();
    let t0 = Instant::now();
    let mut connects = 0; let mut full = 0;
    while t0.elapsed() < Duration::from_millis(500) {
        for ev in server.step() { if let uflow::server::Event::Connect(_) = ev { connects += 1; } }
        for c in [&mut c1, &mut c2] {
            for ev in c.step() { if let uflow::client::Event::Error(uflow::client::ErrorType::ServerFull) = ev { full += 1; } }
        }
        std::thread::sleep(Duration::from_millis(5));
    }
    println!("server Connect events = {}, clients refused with ServerFull = {}", connects, full);
    assert!(connects <= 1, "server established {} connections with max_active_connections = 1", connects);
}
