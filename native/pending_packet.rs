//@file src/half_connection/pending_packet.rs
//@props C12 C02 C04
#[cfg(test)]
mod verif_native {
    use super::*;

    // C12/C02: acknowledging a fragment marks exactly that fragment - for every fragment of a 200-fragment packet (flags live in
    // 64-bit words: fragments that share a word, or a position within a word, must not share a flag). A fragment wrongly marked
    // acknowledged is never retransmitted, and the sender's queues drain with a Reliable packet incomplete.
    #[test]
    fn verif_c12_ack_flag_is_per_fragment() {
        let n: usize = 200;
        for i in 0..n as u16 {
            let mut p = PendingPacket::new(vec![0u8; n * crate::MAX_FRAGMENT_SIZE - 7].into_boxed_slice(), 0, 0, 0, 0);
            assert_eq!(p.last_fragment_id() as usize, n - 1);
            p.acknowledge_fragment(i);
            for j in 0..n as u16 {
                assert_eq!(p.fragment_acknowledged(j), j == i, "after acknowledging fragment {} fragment {} reads {}", i, j, j != i);
            }
        }
        // and the flags accumulate
        let mut p = PendingPacket::new(vec![0u8; n * crate::MAX_FRAGMENT_SIZE].into_boxed_slice(), 0, 0, 0, 0);
        for i in (0..n as u16).step_by(3) { p.acknowledge_fragment(i); }
        for j in 0..n as u16 { assert_eq!(p.fragment_acknowledged(j), j % 3 == 0); }
    }
}
