//@file src/half_connection/send_rate.rs
//@props C14 C03
// Float leaves of the TFRC sender, each proved alone against its contract (bit-precise f64, loop-free, full domain:
// every u64 / every f64 bit pattern incl. NaN, +-inf, subnormals).  The contracts are what the callers
// (callers.rs) assume through stub_verified.  Exception: eval_tcp_throughput and the two compute_initial_* functions carry
// NO contract attribute -- Kani 0.68 cannot `#[kani::stub]` a function that has a contract ("Failed to find contract
// closure __kani_recursion_check_..."), and the callers need *recording* stubs for exactly these three to name the value
// they returned.  Their leaf proofs are plain harnesses (assume precondition, assert postcondition); the recording
// stubs assert the same precondition and return an arbitrary u32, which over-approximates every such function.
//
//@harness check_ms_to_s                  props=C14,C03 kind=full target=ms_to_s
//@harness check_s_to_ms                  props=C14,C03 kind=full target=s_to_ms
//@harness check_eval_tcp_throughput      props=C14,C03 kind=full target=eval_tcp_throughput
//@harness eval_tcp_throughput_rfc_points  props=C14 kind=bounded target=eval_tcp_throughput bound="4 concrete (R,p) points against the literal RFC 5348 3.1 formula, tolerance 1 B/s (CBMC's sqrt is nondeterministic within 1 ulp)" tier=thorough
//@harness eval_tcp_throughput_point_p1    props=C14 kind=bounded target=eval_tcp_throughput bound="one concrete point (R = 1 s, p = 1): result within 1 B/s of the RFC 5348 3.1 value 6.05 B/s"
//@harness check_new_initial_state       props=C14,C13 kind=full target=SendRateComp::new
//@harness check_initial_send_rate        props=C14,C03 kind=full target=compute_initial_send_rate
//@harness check_initial_loss_send_rate   props=C14,C03 kind=full target=compute_initial_loss_send_rate
//@harness check_update_rtt               props=C14,C03 kind=full target=SendRateComp::update_rtt
//@harness check_update_rto               props=C14,C03 kind=full target=SendRateComp::update_rto
//@harness ms_to_s_exact                  props=C14 kind=full target=ms_to_s
//@harness s_to_ms_exact                  props=C14 kind=full target=s_to_ms
//@harness update_rtt_exact               props=C14 kind=full target=SendRateComp::update_rtt
//@harness update_rto_exact               props=C14 kind=full target=SendRateComp::update_rto
//
// Contracts (what the callers assume through stub_verified) carry only the *range and frame* facts the callers need, so
// that assuming them costs the callers' solver nothing; the *exact value* of each leaf (the clauses of property C14) is
// proved by the plain `*_exact` harnesses on the same real function.
//@contract ms_to_s
//| #[cfg_attr(kani, kani::ensures(|r: &f64| r.is_finite() && *r >= 0.0 && r.is_sign_positive() && *r <= 18446744073709552.0 && ((*r == 0.0) == (v_s == 0))))]
//| #[cfg_attr(kani, kani::ensures(|r: &f64| v_s > (1u64 << 61) || *r <= 2305843009213694.0))]
//@contract s_to_ms
//| #[cfg_attr(kani, kani::ensures(|r: &u64| !(v_s <= 0.0 || v_s.is_nan()) || *r == 0))]
//@contract SendRateComp::update_rtt
//| #[cfg_attr(kani, kani::modifies(&self.rtt_s, &self.rtt_ms))]
//| #[cfg_attr(kani, kani::requires($MOD::rtt_ok(self.rtt_s) && rtt_sample_s >= 0.0 && rtt_sample_s.is_sign_positive() && rtt_sample_s <= $MOD::RTT_MAX_S))]
//| #[cfg_attr(kani, kani::ensures(|r: &(f64, u64)| $MOD::opt_feq(self.rtt_s, r.0) && self.rtt_ms == Some(r.1)))]
//| #[cfg_attr(kani, kani::ensures(|r: &(f64, u64)| r.0 >= 0.0 && r.0.is_sign_positive() && r.0 <= $MOD::RTT_MAX_S && r.1 <= 4503599627370496000))]
//@contract SendRateComp::update_rto
//| #[cfg_attr(kani, kani::modifies(&self.rto_ms))]
//| #[cfg_attr(kani, kani::requires(rtt_s >= 0.0 && rtt_s <= $MOD::RTT_MAX_S))]
//| #[cfg_attr(kani, kani::ensures(|r: &f64| *r > 0.0 && self.rto_ms.is_some()))]

// ---- independent specification functions ----------------------------------------------------------------------

/// `a == b` on floats where NaN equals NaN
pub(super) fn feq(a: f64, b: f64) -> bool { a == b || (a.is_nan() && b.is_nan()) }
/// bit-identical (so that -0.0 is not confused with +0.0), NaN matching NaN
pub(super) fn opt_feq(a: Option<f64>, b: f64) -> bool { match a { Some(x) => x.to_bits() == b.to_bits() || (x.is_nan() && b.is_nan()), None => false } }

/// r is x rounded half away from zero and saturated to u64 (NaN and negatives -> 0); written without round()/as-saturation
pub(super) fn spec_round_ms(x: f64, r: u64) -> bool {
    if !(x > 0.0) { r == 0 }                                         // NaN, -0, negatives
    else if x >= 18446744073709551616.0 { r == u64::MAX }            // 2^64 and above (incl. +inf)
    else if x >= 9007199254740992.0 { spec_is_exact(r, x) }                // x is an integer here
    else { let rf = r as f64; r < (1u64 << 53) + 1 && rf - x <= 0.5 && x - rf < 0.5 }
}
/// for x >= 2^53 (an integer): r is exactly that integer (r as f64 == x alone would admit neighbours that round to x)
fn spec_is_exact(r: u64, x: f64) -> bool {
    // r has at most 53 significant bits <=> conversion to f64 is exact
    let lz = r.leading_zeros(); let tz = r.trailing_zeros();
    r != 0 && (64 - lz - tz) <= 53 && (r as f64) == x
}

/// r is x truncated toward zero and saturated to u32 (NaN -> 0), written without the saturating cast
pub(super) fn spec_cast_u32(x: f64, r: u32) -> bool {
    if !(x >= 1.0) { r == 0 }                                        // NaN, negatives, [0,1)
    else if x >= 4294967295.0 { r == u32::MAX }
    else { let rf = r as f64; rf <= x && x < rf + 1.0 }
}

/// f64::max as documented: NaN is ignored
pub(super) fn spec_fmax(a: f64, b: f64) -> f64 { if a.is_nan() { b } else if b.is_nan() { a } else if a >= b { a } else { b } }

/// RFC 5348 section 3.1, literal form:  X_Bps = s / ( R*sqrt(2*b*p/3) + t_RTO * (3*sqrt(3*b*p/8) * p * (1 + 32*p^2)) ), b = 1, t_RTO = 4*R
pub(super) fn rfc5348_literal(r: f64, p: f64) -> f64 {
    let (s, b) = (1472.0_f64, 1.0_f64);
    let t_rto = 4.0 * r;
    s / (r * (2.0 * b * p / 3.0).sqrt() + t_rto * (3.0 * (3.0 * b * p / 8.0).sqrt() * p * (1.0 + 32.0 * p * p)))
}

/// RFC 5348 section 3.1 with b = 1 and t_RTO = 4*R, R factored out:
///   X_Bps = s / ( R * ( sqrt(2*p/3) + 12 * sqrt(3*p/8) * p * (1 + 32*p^2) ) ),  s = 1472
pub(super) fn rfc5348_x_bps(r: f64, p: f64) -> u32 {
    let s = 1472.0_f64;
    let x = s / (r * ((p * 2.0 / 3.0).sqrt() + 12.0 * (p * 3.0 / 8.0).sqrt() * p * (1.0 + 32.0 * p * p)));
    x as u32      // Rust's float->int cast saturates (x is never NaN for finite r >= 0, p in [0,1])
}

/// state invariant on the RTT estimate: finite, non-negative, at most 2^52 s.  2^52 is a power of two, so the EWMA of
/// two values <= 2^52 rounds to a value <= 2^52 (inductive); samples ms_to_s(rtt_ms) satisfy it for rtt_ms <= 2^61.
pub(super) const RTT_MAX_S: f64 = 4503599627370496.0;
pub(super) fn rtt_ok(r: Option<f64>) -> bool { match r { None => true, Some(x) => x >= 0.0 && x <= RTT_MAX_S && x.is_sign_positive() } }

// ---- symbolic SendRateComp (struct literal; no constructor involved) -----------------------------------------

pub(super) fn any_mode() -> SendRateMode {
    match kani::any::<u8>() % 3 {
        0 => SendRateMode::AwaitSend,
        1 => SendRateMode::SlowStart(SlowStartState { time_last_doubled_ms: kani::any() }),
        _ => SendRateMode::ThroughputEqn(ThroughputEqnState { send_rate_tcp: kani::any() }),
    }
}

impl kani::Arbitrary for SendRateComp {
    fn any() -> Self { any_comp(kani::any()) }
}
/// every scalar field unconstrained; the receive-rate set is supplied by the caller
pub(super) fn any_comp(set: recv_rate_set::RecvRateSet) -> SendRateComp {
    {
        SendRateComp {
            prev_loss_rate: kani::any(),
            nofeedback_exp_ms: kani::any(),
            nofeedback_idle: kani::any(),
            mode: any_mode(),
            send_rate: kani::any(),
            max_send_rate: kani::any(),
            recv_rate_set: set,
            rtt_s: kani::any(),
            rtt_ms: kani::any(),
            rto_ms: kani::any(),
        }
    }
}

// ---- leaf proofs -----------------------------------------------------------------------------------------------

#[kani::proof_for_contract(ms_to_s)]
#[kani::solver(cvc5)]
fn check_ms_to_s() { let v: u64 = kani::any(); ms_to_s(v); }

#[kani::proof_for_contract(s_to_ms)]
#[kani::solver(cvc5)]
fn check_s_to_ms() { let v: f64 = kani::any(); s_to_ms(v); }

/// no panic, no NaN, and the documented edge: p == 0 gives the saturated rate (slow-start / loss-free case)
#[kani::proof]
#[kani::solver(kissat)]
fn check_eval_tcp_throughput() {
    let r: f64 = kani::any(); let p: f64 = kani::any();
    kani::assume(r >= 0.0 && r <= RTT_MAX_S && r.is_sign_positive() && p >= 0.0 && p <= 1.0);
    let x = eval_tcp_throughput(r, p);
    assert!(p != 0.0 || x == u32::MAX);
}

/// RFC 5348 4.2: "the sender ... sets its allowed sending rate X to 1 packet/second"; nothing has been measured yet; the
/// ceiling is the constructor's argument (C13). The contract Verus assumes for `new` (send_rate_getters.vspec) is this one.
#[kani::proof]
fn check_new_initial_state() {
    let max: u32 = kani::any();
    let c = SendRateComp::new(max);
    assert!(c.send_rate == 1472, "C14: X starts at one segment (s = 1472 bytes) per second");
    assert!(c.max_send_rate == max, "C13: the ceiling is the negotiated limit");
    assert!(matches!(c.mode, SendRateMode::AwaitSend) && c.rtt_s.is_none() && c.rtt_ms.is_none() && c.rto_ms.is_none()
            && c.nofeedback_exp_ms.is_none() && !c.nofeedback_idle && c.prev_loss_rate == 0.0 && c.recv_rate_set.kv_len() == 0,
            "C14: no RTT, no timer, no loss history, empty receive-rate set before the first frame is sent");
}

#[kani::proof]
#[kani::solver(cvc5)]
fn check_initial_send_rate() {
    let r: f64 = kani::any();
    kani::assume(r >= 0.0 && r <= RTT_MAX_S);
    let x = compute_initial_send_rate(r);
    assert!(spec_cast_u32(4380.0 / r, x), "C14: W_init/R with W_init = min(4*s, max(2*s, 4380)) = 4380");
}

#[kani::proof]
#[kani::solver(cvc5)]
fn check_initial_loss_send_rate() {
    let r: f64 = kani::any();
    kani::assume(r >= 0.0 && r <= RTT_MAX_S);
    let x = compute_initial_loss_send_rate(r);
    assert!(spec_cast_u32(736.0 / r, x), "C14: X_target = s/2 per RTT on a first-feedback loss (RFC 5348 6.3.1)");
}

#[kani::proof_for_contract(SendRateComp::update_rtt)]
#[kani::solver(cvc5)]
fn check_update_rtt() {
    let mut c: SendRateComp = any_comp(recv_rate_set::RecvRateSet::new());
    let sample: f64 = kani::any();
    c.update_rtt(sample);
}

#[kani::proof_for_contract(SendRateComp::update_rto)]
#[kani::solver(cvc5)]
fn check_update_rto() {
    let mut c: SendRateComp = any_comp(recv_rate_set::RecvRateSet::new());
    let rtt: f64 = kani::any();
    let rate: u32 = kani::any();
    c.update_rto(rtt, rate);
}

// ---- exact values (property clauses), plain harnesses on the real functions ----------------------------------------

#[kani::proof]
#[kani::solver(cvc5)]
fn ms_to_s_exact() { let v: u64 = kani::any(); assert!(ms_to_s(v) == (v as f64) / 1000.0); }

#[kani::proof]
#[kani::solver(cvc5)]
fn s_to_ms_exact() { let v: f64 = kani::any(); let r = s_to_ms(v); assert!(spec_round_ms(v * 1000.0, r), "s_to_ms rounds half away from zero, saturates, maps NaN/negatives to 0"); }

#[kani::proof]
#[kani::solver(cvc5)]
fn update_rtt_exact() {
    let mut c: SendRateComp = any_comp(recv_rate_set::RecvRateSet::new());
    let sample: f64 = kani::any();
    kani::assume(rtt_ok(c.rtt_s) && sample >= 0.0 && sample.is_sign_positive() && sample <= RTT_MAX_S);
    let old = c.rtt_s;
    let (r, ms) = c.update_rtt(sample);
    match old {
        None => assert!(r == sample, "C14: the first RTT sample is taken as the estimate"),
        Some(o) => assert!(r == 0.9 * o + 0.1 * sample, "C14: rtt = 0.9*rtt + 0.1*sample (same expression order, bitwise)"),
    }
    assert!(spec_round_ms(r * 1000.0, ms), "C14: rtt_ms == round(1000*rtt)");
    assert!(opt_feq(c.rtt_s, r) && c.rtt_ms == Some(ms));
}

#[kani::proof]
#[kani::solver(cvc5)]
fn update_rto_exact() {
    let mut c: SendRateComp = any_comp(recv_rate_set::RecvRateSet::new());
    let rtt: f64 = kani::any();
    let rate: u32 = kani::any();
    kani::assume(rtt >= 0.0 && rtt <= RTT_MAX_S);
    let r = c.update_rto(rtt, rate);
    assert!(r == spec_fmax(4.0 * rtt, 2944.0 / (rate as f64)), "C14: t_RTO = max(4*R, 2*s/X)");
    assert!(match c.rto_ms { Some(ms) => spec_round_ms(r * 1000.0, ms), None => false });
}

/// Bitwise equality with a transcription is NOT provable in this engine: CBMC models sqrt() as a nondeterministic value
/// constrained by lower^2 <= d < upper^2 with *rounded* squares, so two evaluations of the same sqrt may differ by an
/// ulp (kissat refutes `f(R,p) == f(R,p)` for this expression in 215 s).  What is checked instead: the real function
/// against the literal RFC formula at concrete points with a 1 B/s tolerance; a wrong constant moves these by >> 1.
#[kani::proof]
#[kani::unwind(6)]
fn eval_tcp_throughput_rfc_points() {
    let pts: [(f64, f64); 4] = [(0.1, 0.01), (0.5, 1.0), (0.05, 0.0001), (1.0, 0.25)];
    let mut i = 0;
    while i < 4 {
        let (r, p) = pts[i];
        let got = eval_tcp_throughput(r, p) as f64;
        let want = rfc5348_literal(r, p);
        assert!(got <= want + 1.0 && got >= want - 2.0, "C14: eval_tcp_throughput matches RFC 5348 3.1 (b=1, t_RTO=4R)");
        i += 1;
    }
}

/// quick-tier sanity point for the throughput equation: at R = 1 s, p = 1 the RFC formula gives
/// s / (R * (sqrt(2/3) + 12 * sqrt(3/8) * 33)) = 1472 / 243.31 = 6.05 B/s; a wrong constant (e.g. the t_RTO = 4R factor
/// forgotten: 3 instead of 12) gives 23.9 B/s. The four-point comparison against the literal formula runs in the thorough tier.
#[kani::proof]
fn eval_tcp_throughput_point_p1() {
    let got = eval_tcp_throughput(1.0, 1.0);
    assert!(got >= 5 && got <= 7, "C14: eval_tcp_throughput(1 s, p = 1) is 6 B/s (RFC 5348 3.1, b = 1, t_RTO = 4R)");
}

