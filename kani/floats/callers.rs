//@file src/half_connection/send_rate.rs
//@props C14 C03
// Callers of the float leaves: handle_feedback, nofeedback_expired, step -- real bodies.  Callees are replaced as follows:
//   * ms_to_s, s_to_ms, update_rtt, update_rto: `stub_verified` (range/frame contracts proved in leaves.rs; Kani
//     refuses stub_verified without a proof_for_contract harness);
//   * eval_tcp_throughput, compute_initial_send_rate, compute_initial_loss_send_rate, eval_tcp_throughput_inv: plain
//     *recording* stubs that assert the callee's precondition and return an ARBITRARY value (more behaviours than any
//     contract admits; nothing is assumed), so that the harness can name the value the callee returned;
//   * RecvRateSet::{rate_limited,loss_increase,data_limited}_update: the abstract stubs of rrs.rs (ASSUMED contracts,
//     validated for sets of <= 3 entries -- see the //@assumption there); RecvRateSet::max/reset run for real.
// What remains for CBMC is the u32 min/max logic, the mode switch and the u64 clock arithmetic.
//
// Preconditions (state invariant `inv(now)`, established by new()/notify_frame_sent and preserved by every harness below):
//   I1  rtt_s is None or a non-negative finite value <= 2^52 s (sign bit clear)
//   I3  mode != AwaitSend  =>  recv_rate_set is non-empty and all its timestamps are <= now
//   I4  SlowStart{time_last_doubled_ms: Some(t)}  =>  t <= now   (monotone clock)
//   I5  ThroughputEqn  =>  rtt_s is Some
//   I6  ThroughputEqn  =>  X >= min(max(min(X_Bps, max X_recv_set), s/64), max_send_rate)   (X was not limited below what
//       the current set allows; established by handle_feedback, preserved by the expiry; it is what makes
//       "an expiry never increases X" true)
// Input preconditions: now_ms <= 2^62, feedback.rtt_ms <= 2^61 (an RTT sample is a clock difference), loss_rate in [0,1];
// receive_rate and rate_limited are unconstrained.
//
//@harness handle_feedback_slow_start        props=C14,C03,C13 kind=full target=SendRateComp::handle_feedback needs=check_initial_send_rate,check_initial_loss_send_rate,check_eval_tcp_throughput,check_rrs_rate_limited_update,check_rrs_loss_increase_update,check_rrs_data_limited_update
//@harness handle_feedback_throughput_eqn    props=C14,C03,C13 kind=full target=SendRateComp::handle_feedback needs=check_eval_tcp_throughput,check_rrs_rate_limited_update,check_rrs_loss_increase_update,check_rrs_data_limited_update
//@harness nofeedback_expired_slow_start     props=C14,C03,C13,C10 kind=full target=SendRateComp::nofeedback_expired needs=check_initial_send_rate
//@harness nofeedback_expired_teqn_floor     props=C14,C03,C10 kind=full target=SendRateComp::nofeedback_expired needs=check_initial_send_rate
//@harness nofeedback_expired_teqn_ceiling   props=C14,C13     kind=full target=SendRateComp::nofeedback_expired needs=check_initial_send_rate
//@harness step_no_feedback_before_deadline  props=C14     kind=full target=SendRateComp::step
//@harness step_await_send_is_inert          props=C14,C03 kind=full target=SendRateComp::step
//@harness notify_frame_sent_starts_slow_start props=C14,C03 kind=full target=SendRateComp::notify_frame_sent
//@harness notify_frame_sent_later_frames    props=C14 kind=full target=SendRateComp::notify_frame_sent
//@harness check_eval_tcp_throughput_inv     props=C14,C03 kind=bounded target=eval_tcp_throughput_inv bound="bisection executions with at most 6 evaluations of the throughput equation; longer runs are cut by assume" needs=check_eval_tcp_throughput
//@harness floats_cover_requires             props=C14,C03 kind=cover target=SendRateComp

use super::kv_floats_leaves::{any_comp, rtt_ok, RTT_MAX_S};

const NOW_MAX: u64 = 1 << 62;
const RTT_MS_MAX: u64 = 1 << 61;

fn i1(c: &SendRateComp) -> bool { rtt_ok(c.rtt_s) }
fn i3(c: &SendRateComp, now: u64) -> bool { match c.mode { SendRateMode::AwaitSend => true, _ => c.recv_rate_set.kv_len() >= 1 && c.recv_rate_set.kv_ts_le(now) } }
fn i4(c: &SendRateComp, now: u64) -> bool { match c.mode { SendRateMode::SlowStart(SlowStartState { time_last_doubled_ms: Some(t) }) => t <= now, _ => true } }
fn i5(c: &SendRateComp) -> bool { match c.mode { SendRateMode::ThroughputEqn(_) => c.rtt_s.is_some(), _ => true } }
fn i6(c: &SendRateComp) -> bool {
    match c.mode {
        SendRateMode::ThroughputEqn(ThroughputEqnState { send_rate_tcp }) => match c.recv_rate_set.kv_max() {
            Some(m) => c.send_rate >= max_u32(send_rate_tcp.min(m), MINIMUM_RATE).min(c.max_send_rate),
            None => false },
        _ => true }
}
fn inv(c: &SendRateComp, now: u64) -> bool { i1(c) && i3(c, now) && i4(c, now) && i5(c) && i6(c) }
fn assert_inv(c: &SendRateComp, now: u64) {
    assert!(i1(c), "invariant I1 preserved: rtt estimate finite, in [+0, 2^52]");
    assert!(i3(c, now), "invariant I3 preserved: receive-rate set non-empty, timestamps <= now");
    assert!(i4(c, now), "invariant I4 preserved: time_last_doubled <= now");
    assert!(i5(c), "invariant I5 preserved: ThroughputEqn has an rtt estimate");
    assert!(i6(c), "invariant I6 preserved: X >= min(max(min(X_Bps, max X_recv), s/64), ceiling)");
}

fn any_state(now: u64) -> SendRateComp {
    let c = any_comp(kani::any());
    kani::assume(inv(&c, now));
    c
}

fn any_feedback() -> FeedbackData {
    let f = FeedbackData { rtt_ms: kani::any(), receive_rate: kani::any(), loss_rate: kani::any(), rate_limited: kani::any() };
    kani::assume(f.rtt_ms <= RTT_MS_MAX);
    kani::assume(f.loss_rate >= 0.0 && f.loss_rate <= 1.0);
    f
}

fn max_u32(a: u32, b: u32) -> u32 { if a >= b { a } else { b } }
fn dbl(a: u32) -> u32 { if a > u32::MAX / 2 { u32::MAX } else { a * 2 } }

// ---- recording stubs ----------------------------------------------------------------------------------------------
static mut EVAL_CALLS: u32 = 0;
static mut EVAL_ARGS: (f64, f64) = (0.0, 0.0);
static mut EVAL_RET: u32 = 0;
fn rec_eval_tcp_throughput(rtt: f64, p: f64) -> u32 {
    assert!(rtt >= 0.0 && rtt <= RTT_MAX_S && p >= 0.0 && p <= 1.0, "precondition of eval_tcp_throughput at its call site");
    let r: u32 = kani::any();
    unsafe { EVAL_CALLS += 1; EVAL_ARGS = (rtt, p); EVAL_RET = r; }
    r
}
static mut INIT_CALLS: u32 = 0;
static mut INIT_ARG: f64 = 0.0;
static mut INIT_RET: u32 = 0;
fn rec_compute_initial_send_rate(rtt_s: f64) -> u32 {
    assert!(rtt_s >= 0.0 && rtt_s <= RTT_MAX_S, "precondition of compute_initial_send_rate at its call site");
    let r: u32 = kani::any();
    unsafe { INIT_CALLS += 1; INIT_ARG = rtt_s; INIT_RET = r; }
    r
}
static mut ILOSS_CALLS: u32 = 0;
static mut ILOSS_RET: u32 = 0;
fn rec_compute_initial_loss_send_rate(rtt_s: f64) -> u32 {
    assert!(rtt_s >= 0.0 && rtt_s <= RTT_MAX_S, "precondition of compute_initial_loss_send_rate at its call site");
    let r: u32 = kani::any();
    unsafe { ILOSS_CALLS += 1; ILOSS_RET = r; }
    r
}

static mut INV_RET_BITS: u64 = 0;
static mut INV_TARGET: u32 = 0;
/// the bisection is replaced by "returns ANY f64" (no assumption at all: nothing downstream needs more)
fn rec_eval_tcp_throughput_inv(rtt: f64, target_rate_bps: u32) -> f64 {
    assert!(rtt >= 0.0 && rtt <= RTT_MAX_S, "precondition of eval_tcp_throughput_inv at its call site");
    let r: f64 = kani::any();
    unsafe { INV_RET_BITS = r.to_bits(); INV_TARGET = target_rate_bps; }
    r
}

// ---- handle_feedback --------------------------------------------------------------------------------------------------

#[kani::proof]
#[kani::unwind(6)]
#[kani::stub_verified(ms_to_s)]
#[kani::stub_verified(s_to_ms)]
#[kani::stub_verified(SendRateComp::update_rtt)]
#[kani::stub_verified(SendRateComp::update_rto)]
#[kani::stub(eval_tcp_throughput_inv, rec_eval_tcp_throughput_inv)]
#[kani::stub(recv_rate_set::RecvRateSet::rate_limited_update, recv_rate_set::RecvRateSet::kv_stub_rate_limited_update)]
#[kani::stub(recv_rate_set::RecvRateSet::loss_increase_update, recv_rate_set::RecvRateSet::kv_stub_loss_increase_update)]
#[kani::stub(recv_rate_set::RecvRateSet::data_limited_update, recv_rate_set::RecvRateSet::kv_stub_data_limited_update)]
#[kani::stub(compute_initial_send_rate, rec_compute_initial_send_rate)]
#[kani::stub(compute_initial_loss_send_rate, rec_compute_initial_loss_send_rate)]
#[kani::stub(eval_tcp_throughput, rec_eval_tcp_throughput)]
fn handle_feedback_slow_start() {
    let now: u64 = kani::any();
    kani::assume(now <= NOW_MAX);
    let mut c = any_state(now);
    let last_doubled = match c.mode { SendRateMode::SlowStart(SlowStartState { time_last_doubled_ms }) => time_last_doubled_ms, _ => { kani::assume(false); None } };
    let fb = any_feedback();
    let (old_rate, ceiling, prev_loss, loss) = (c.send_rate, c.max_send_rate, c.prev_loss_rate, fb.loss_rate);
    let mut reset_to: Option<f64> = None;
    let mut resets = 0u32;
    c.handle_feedback(now, fb, |p| { reset_to = Some(p); resets += 1; });

    assert!(c.send_rate <= ceiling, "C14: X <= max_send_rate after feedback");
    let rtt_ms_new = c.rtt_ms.unwrap();
    if loss > prev_loss {
        // first loss report: enter the throughput-equation phase at X_target = s/2/R (first feedback) or X/2
        let target = match c.mode { SendRateMode::ThroughputEqn(ThroughputEqnState { send_rate_tcp }) => send_rate_tcp, _ => { assert!(false, "C14: loss in slow start enters ThroughputEqn"); 0 } };
        if last_doubled.is_none() { assert!(unsafe { ILOSS_CALLS } == 1 && target == unsafe { ILOSS_RET }); } else { assert!(target == old_rate / 2); }
        assert!(c.send_rate <= max_u32(target, MINIMUM_RATE), "C14: X <= max(X_target, s/64) on the first loss");
        assert!(resets == 1, "loss history initialised exactly once");
        assert!(reset_to.unwrap().to_bits() == unsafe { INV_RET_BITS } && unsafe { INV_TARGET } == target,
                "loss history initialised with eval_tcp_throughput_inv(rtt, X_target)");
        if ceiling >= MINIMUM_RATE { assert!(c.send_rate >= MINIMUM_RATE, "C14: X >= s/64"); }
    } else {
        assert!(resets == 0);
        assert!(unsafe { INIT_CALLS } == 1 && unsafe { INIT_ARG } == c.rtt_s.unwrap(), "W_init/R is evaluated at the new RTT estimate");
        let initial = unsafe { INIT_RET };
        assert!(c.send_rate <= max_u32(dbl(old_rate), initial), "C14: one feedback at most doubles X (or sets W_init/R)");
        match last_doubled {
            None => assert!(c.send_rate == initial.min(ceiling), "C14: first feedback sets X = W_init/R"),
            Some(t) => if now - t < rtt_ms_new { assert!(c.send_rate == old_rate.min(ceiling), "C14: no doubling within one RTT of the last one"); },
        }
        assert!(matches!(c.mode, SendRateMode::SlowStart(SlowStartState { time_last_doubled_ms: Some(_) })));
    }
    assert!(c.prev_loss_rate == loss);
    assert!(c.nofeedback_idle && match c.nofeedback_exp_ms { Some(e) => e >= now, None => false }, "no-feedback timer restarted");
    assert_inv(&c, now);
}

#[kani::proof]
#[kani::unwind(6)]
#[kani::stub_verified(ms_to_s)]
#[kani::stub_verified(s_to_ms)]
#[kani::stub_verified(SendRateComp::update_rtt)]
#[kani::stub_verified(SendRateComp::update_rto)]
#[kani::stub(recv_rate_set::RecvRateSet::rate_limited_update, recv_rate_set::RecvRateSet::kv_stub_rate_limited_update)]
#[kani::stub(recv_rate_set::RecvRateSet::loss_increase_update, recv_rate_set::RecvRateSet::kv_stub_loss_increase_update)]
#[kani::stub(recv_rate_set::RecvRateSet::data_limited_update, recv_rate_set::RecvRateSet::kv_stub_data_limited_update)]
#[kani::stub(eval_tcp_throughput, rec_eval_tcp_throughput)]
fn handle_feedback_throughput_eqn() {
    let now: u64 = kani::any();
    kani::assume(now <= NOW_MAX);
    let mut c = any_state(now);
    kani::assume(matches!(c.mode, SendRateMode::ThroughputEqn(_)));
    let fb = any_feedback();
    let (ceiling, loss) = (c.max_send_rate, fb.loss_rate);
    let mut resets = 0u32;
    c.handle_feedback(now, fb, |_p| { resets += 1; });

    let x_bps = match c.mode { SendRateMode::ThroughputEqn(ThroughputEqnState { send_rate_tcp }) => send_rate_tcp, _ => { assert!(false, "stays in ThroughputEqn"); 0 } };
    // X_Bps is the throughput equation evaluated at the NEW rtt estimate and the reported loss event rate
    assert!(unsafe { EVAL_CALLS } == 1);
    assert!(unsafe { EVAL_ARGS.0 } == c.rtt_s.unwrap() && unsafe { EVAL_ARGS.1 } == loss && unsafe { EVAL_RET } == x_bps,
            "C14: X_Bps = eval_tcp_throughput(rtt, p)");
    assert!(c.send_rate <= max_u32(x_bps, MINIMUM_RATE), "C14: X <= max(X_Bps, s/64) once loss has been reported");
    assert!(c.send_rate <= ceiling, "C14: X <= max_send_rate after feedback");
    if ceiling >= MINIMUM_RATE { assert!(c.send_rate >= MINIMUM_RATE, "C14: X >= s/64"); }
    assert!(resets == 0);
    assert!(c.prev_loss_rate == loss);
    assert!(c.nofeedback_idle && match c.nofeedback_exp_ms { Some(e) => e >= now, None => false }, "no-feedback timer restarted");
    assert_inv(&c, now);
}

// ---- nofeedback_expired ---------------------------------------------------------------------------------------------

#[kani::proof]
#[kani::unwind(6)]
#[kani::stub_verified(s_to_ms)]
#[kani::stub_verified(SendRateComp::update_rto)]
#[kani::stub(compute_initial_send_rate, rec_compute_initial_send_rate)]
fn nofeedback_expired_slow_start() {
    let now: u64 = kani::any();
    kani::assume(now <= NOW_MAX);
    let mut c = any_state(now);
    kani::assume(matches!(c.mode, SendRateMode::SlowStart(_)));
    let (old, idle, had_rtt, ceiling) = (c.send_rate, c.nofeedback_idle, c.rtt_s.is_some(), c.max_send_rate);
    c.nofeedback_expired(now);
    let halved = max_u32(old / 2, MINIMUM_RATE);
    if old >= MINIMUM_RATE { assert!(c.send_rate <= old, "C14: X never increases on expiry"); }
    if old >= MINIMUM_RATE && ceiling >= MINIMUM_RATE { assert!(c.send_rate >= MINIMUM_RATE, "C14: X >= s/64 after expiry"); }
    assert!(c.send_rate == old.min(ceiling) || c.send_rate == halved.min(ceiling), "C14: an expiry keeps X or halves it (floor s/64), then applies the ceiling");
    if c.send_rate == old && old > MINIMUM_RATE && old <= ceiling {
        // kept only under the idle exception X < 2*recover_rate
        assert!(idle && had_rtt && old < dbl(unsafe { INIT_RET }));
    }
    if ceiling >= MINIMUM_RATE || old <= ceiling { assert!(c.send_rate <= ceiling, "C14: X <= max_send_rate after a no-feedback expiry"); }
    assert!(c.nofeedback_idle && match c.nofeedback_exp_ms { Some(e) => e >= now, None => false });
    assert!(matches!(c.mode, SendRateMode::SlowStart(_)));
    assert_inv(&c, now);
}

fn teqn_state(now: u64) -> SendRateComp {
    let c = any_state(now);
    kani::assume(matches!(c.mode, SendRateMode::ThroughputEqn(_)));
    c
}

/// D14 regression: the s/64 floor also holds on the ThroughputEqn branch of the expiry
#[kani::proof]
#[kani::unwind(6)]
#[kani::stub_verified(s_to_ms)]
#[kani::stub_verified(SendRateComp::update_rto)]
#[kani::stub(compute_initial_send_rate, rec_compute_initial_send_rate)]
fn nofeedback_expired_teqn_floor() {
    let now: u64 = kani::any();
    kani::assume(now <= NOW_MAX);
    let mut c = teqn_state(now);
    let old = c.send_rate;
    c.nofeedback_expired(now);
    let ceiling = c.max_send_rate;
    if old >= MINIMUM_RATE && ceiling >= MINIMUM_RATE { assert!(c.send_rate >= MINIMUM_RATE, "C14: X >= s/64 after expiry (D14)"); }
    assert!(c.nofeedback_idle && match c.nofeedback_exp_ms { Some(e) => e >= now, None => false });
    assert!(matches!(c.mode, SendRateMode::ThroughputEqn(_)));
    assert_inv(&c, now);
}

/// the ceiling / never-increases half on the ThroughputEqn branch (D19 regression); "never increases" rests on I6
#[kani::proof]
#[kani::unwind(6)]
#[kani::stub_verified(s_to_ms)]
#[kani::stub_verified(SendRateComp::update_rto)]
#[kani::stub(compute_initial_send_rate, rec_compute_initial_send_rate)]
fn nofeedback_expired_teqn_ceiling() {
    let now: u64 = kani::any();
    kani::assume(now <= NOW_MAX);
    let mut c = teqn_state(now);
    let (old, ceiling) = (c.send_rate, c.max_send_rate);
    c.nofeedback_expired(now);
    assert!(c.send_rate <= ceiling, "C14: X <= max_send_rate after a no-feedback expiry");
    assert!(c.send_rate <= old, "C14: X never increases on a no-feedback expiry");
}

// ---- step ---------------------------------------------------------------------------------------------------------

#[kani::proof]
#[kani::unwind(6)]
fn step_no_feedback_before_deadline() {
    let now: u64 = kani::any();
    let mut c = any_comp(kani::any());
    let (rate, exp, idle, rtt_ms, rto_ms, n) = (c.send_rate, c.nofeedback_exp_ms, c.nofeedback_idle, c.rtt_ms, c.rto_ms, c.recv_rate_set.kv_len());
    kani::assume(match exp { Some(e) => now < e, None => true });
    let mut resets = 0u32;
    c.step(now, None, |_p| { resets += 1; });
    assert!(c.send_rate == rate, "C14: X never changes while no feedback arrives before the deadline");
    assert!(c.nofeedback_exp_ms == exp && c.nofeedback_idle == idle && c.rtt_ms == rtt_ms && c.rto_ms == rto_ms && c.recv_rate_set.kv_len() == n && resets == 0);
}

#[kani::proof]
#[kani::unwind(6)]
#[kani::stub(eval_tcp_throughput_inv, rec_eval_tcp_throughput_inv)]
#[kani::stub(eval_tcp_throughput, rec_eval_tcp_throughput)]
#[kani::stub(compute_initial_send_rate, rec_compute_initial_send_rate)]
#[kani::stub(compute_initial_loss_send_rate, rec_compute_initial_loss_send_rate)]
#[kani::stub(recv_rate_set::RecvRateSet::rate_limited_update, recv_rate_set::RecvRateSet::kv_stub_rate_limited_update)]
#[kani::stub(recv_rate_set::RecvRateSet::loss_increase_update, recv_rate_set::RecvRateSet::kv_stub_loss_increase_update)]
#[kani::stub(recv_rate_set::RecvRateSet::data_limited_update, recv_rate_set::RecvRateSet::kv_stub_data_limited_update)]
fn step_await_send_is_inert() {
    let now: u64 = kani::any();
    let mut c = any_comp(kani::any());
    kani::assume(matches!(c.mode, SendRateMode::AwaitSend));
    let rate = c.send_rate;
    let fb: Option<FeedbackData> = if kani::any() { Some(FeedbackData { rtt_ms: kani::any(), receive_rate: kani::any(), loss_rate: kani::any(), rate_limited: kani::any() }) } else { None };
    c.step(now, fb, |_p| {});
    assert!(c.send_rate == rate && matches!(c.mode, SendRateMode::AwaitSend));
}

/// RFC 5348 4.2: when the first packet is sent the nofeedback timer is set to 2 seconds; X stays at its initial value; the
/// receive-rate set starts as {infinity} (4.3: "X_recv_set = {Infinity, ..}"). Establishes the invariant the other harnesses assume.
#[kani::proof]
#[kani::unwind(6)]
fn notify_frame_sent_starts_slow_start() {
    let now: u64 = kani::any();
    kani::assume(now <= NOW_MAX);
    let mut c = any_comp(recv_rate_set::RecvRateSet::new());
    kani::assume(matches!(c.mode, SendRateMode::AwaitSend) && i1(&c));
    let (rate, ceil) = (c.send_rate, c.max_send_rate);
    c.notify_frame_sent(now);
    assert!(matches!(c.mode, SendRateMode::SlowStart(SlowStartState { time_last_doubled_ms: None })), "C14: the first frame starts slow start");
    assert!(c.nofeedback_exp_ms == Some(now + 2000) && !c.nofeedback_idle, "C14: initial no-feedback timer is 2 s");
    assert!(c.send_rate == rate && c.max_send_rate == ceil, "C14/C13: sending a frame does not change the rate");
    assert!(c.recv_rate_set.kv_len() == 1 && c.recv_rate_set.kv_max() == Some(u32::MAX) && c.recv_rate_set.kv_ts_le(now), "C14: X_recv_set = {infinity}");
    assert_inv(&c, now);
}

/// every later frame only clears the idle flag
#[kani::proof]
#[kani::unwind(6)]
fn notify_frame_sent_later_frames() {
    let now: u64 = kani::any();
    kani::assume(now <= NOW_MAX);
    let mut c = any_state(now);
    kani::assume(!matches!(c.mode, SendRateMode::AwaitSend));
    let (rate, exp, n, m) = (c.send_rate, c.nofeedback_exp_ms, c.recv_rate_set.kv_len(), c.recv_rate_set.kv_max());
    let slow = matches!(c.mode, SendRateMode::SlowStart(_));
    c.notify_frame_sent(now);
    assert!(c.send_rate == rate && c.nofeedback_exp_ms == exp && !c.nofeedback_idle, "C14: only the idle flag changes");
    assert!(c.recv_rate_set.kv_len() == n && c.recv_rate_set.kv_max() == m && slow == matches!(c.mode, SendRateMode::SlowStart(_)));
    assert_inv(&c, now);
}

// ---- the bisection -----------------------------------------------------------------------------------------------------

static mut INV_EVALS: u32 = 0;
fn counted_eval(rtt: f64, p: f64) -> u32 {
    assert!(rtt >= 0.0 && rtt <= RTT_MAX_S && p >= 0.0 && p <= 1.0, "precondition of eval_tcp_throughput inside the bisection");
    unsafe { kani::assume(INV_EVALS < 6); INV_EVALS += 1; }
    kani::any()
}

/// plain bounded proof (no contract attribute: the callers replace the bisection by "any f64")
#[kani::proof]
#[kani::stub(eval_tcp_throughput, counted_eval)]
#[kani::unwind(8)]
fn check_eval_tcp_throughput_inv() {
    let rtt: f64 = kani::any();
    let target: u32 = kani::any();
    kani::assume(rtt >= 0.0 && rtt <= RTT_MAX_S);
    let p = eval_tcp_throughput_inv(rtt, target);
    assert!(p >= 0.0 && p <= 1.0, "the bisection returns a loss event rate in [0,1]");
}

// ---- vacuity: every precondition above is satisfiable, in every mode ----------------------------------------------------

#[kani::proof]
#[kani::unwind(6)]
fn floats_cover_requires() {
    let now: u64 = kani::any();
    kani::assume(now <= NOW_MAX);
    let c = any_state(now);
    let fb = any_feedback();
    kani::cover!(matches!(c.mode, SendRateMode::SlowStart(SlowStartState { time_last_doubled_ms: None })) && c.rtt_s.is_none());
    kani::cover!(matches!(c.mode, SendRateMode::SlowStart(SlowStartState { time_last_doubled_ms: Some(_) })) && c.rtt_s.is_some() && c.nofeedback_idle);
    kani::cover!(matches!(c.mode, SendRateMode::SlowStart(_)) && c.rtt_s.is_none() && c.nofeedback_idle);
    kani::cover!(matches!(c.mode, SendRateMode::ThroughputEqn(_)) && c.recv_rate_set.kv_len() == 3 && fb.loss_rate > c.prev_loss_rate && fb.rate_limited);
    kani::cover!(matches!(c.mode, SendRateMode::ThroughputEqn(_)) && c.max_send_rate >= 1472 && c.send_rate <= c.max_send_rate && c.send_rate >= MINIMUM_RATE);
    kani::cover!(fb.rtt_ms == 0 && fb.receive_rate == u32::MAX && fb.loss_rate == 1.0);
    kani::cover!(fb.rtt_ms == RTT_MS_MAX && fb.loss_rate == 0.0 && now == NOW_MAX);
}
