//@file src/half_connection/loss_rate.rs
//@props C14 C03
// Loss event rate (RFC 5348 5.4) of the loss interval queue: the f64 half of loss_rate.rs that Verus cannot see.
// The integer half (push_ack / push_nack / new) is proved by Verus to keep the invariant `wf`: at most 9 intervals, each
// at least one frame long (contracts/loss_rate.vspec).  Under exactly that invariant the harnesses below are COMPLETE
// (every queue length 0..=9 is its own path with a concrete VecDeque length, every interval length is a symbolic u32 >= 1,
// f64 bit-precise): the reported loss rate is 0 for an empty history and otherwise a finite number in (0, 1] - which is the
// domain precondition handle_feedback's contract assumes for `feedback.loss_rate` (kani/floats/callers.rs).  That it is the
// RFC's  p = W_tot / max(I_tot0, I_tot1)  is checked at concrete histories only (bounded).
//
//@harness check_loss_rate_empty          props=C14,C03 kind=full target=LossIntervalQueue::compute_loss_rate
//@harness check_loss_rate_range_n1       props=C14,C03 kind=full target=LossIntervalQueue::compute_loss_rate
//@harness check_loss_rate_range_n2       props=C14,C03 kind=full target=LossIntervalQueue::compute_loss_rate
//@harness check_loss_rate_range_n3       props=C14,C03 kind=full target=LossIntervalQueue::compute_loss_rate
//@harness check_loss_rate_range_n4       props=C14,C03 kind=full target=LossIntervalQueue::compute_loss_rate tier=thorough
//@harness check_loss_rate_range_n5       props=C14,C03 kind=full target=LossIntervalQueue::compute_loss_rate tier=thorough
//@harness check_loss_rate_range_n6       props=C14,C03 kind=full target=LossIntervalQueue::compute_loss_rate tier=thorough
//@harness check_loss_rate_range_n7       props=C14,C03 kind=full target=LossIntervalQueue::compute_loss_rate tier=thorough
//@harness check_loss_rate_range_n8       props=C14,C03 kind=full target=LossIntervalQueue::compute_loss_rate tier=thorough
//@harness check_loss_rate_range_n9       props=C14,C03 kind=full target=LossIntervalQueue::compute_loss_rate
//@harness check_loss_reset_n1            props=C14,C03 kind=full target=LossIntervalQueue::reset
//@harness check_loss_reset_n2            props=C14,C03 kind=full target=LossIntervalQueue::reset tier=thorough
//@harness check_loss_reset_n9            props=C14,C03 kind=full target=LossIntervalQueue::reset
//@harness loss_rate_rfc_points            props=C14 kind=bounded target=LossIntervalQueue::compute_loss_rate bound="7 concrete interval histories against RFC 5348 5.4 evaluated by hand, tolerance 1e-12"
//@harness loss_reset_points               props=C14 kind=bounded target=LossIntervalQueue::reset bound="4 concrete initial loss rates: I_0 == round(1/p0), saturated"
//@harness loss_cover_requires            props=C14 kind=cover target=LossIntervalQueue::compute_loss_rate

fn kv_queue(n: usize) -> (LossIntervalQueue, [u32; 9]) {
    let mut lens = [1u32; 9];
    let mut q = LossIntervalQueue::new();
    let mut i = 0;
    while i < n {
        let l: u32 = kani::any();
        kani::assume(l >= 1);                      // wf: every interval is at least one frame long
        lens[i] = l;
        q.entries.push_back(LossInterval { end_time_ms: kani::any(), length: l });
        i += 1;
    }
    (q, lens)
}

#[kani::proof]
fn check_loss_rate_empty() {
    let q = LossIntervalQueue::new();
    assert!(q.compute_loss_rate().to_bits() == 0.0f64.to_bits(), "C14: no loss history => p == 0");
}

fn kv_range_case(n: usize) {
    let (q, _) = kv_queue(n);
    let p = q.compute_loss_rate();
    assert!(p.is_finite() && p > 0.0 && p <= 1.0, "C14/C03: the loss event rate of a well-formed history is a number in (0, 1]");
}

#[kani::proof]
#[kani::unwind(11)]
fn check_loss_rate_range_n1() { kv_range_case(1); }
#[kani::proof]
#[kani::unwind(11)]
fn check_loss_rate_range_n2() { kv_range_case(2); }
#[kani::proof]
#[kani::unwind(11)]
fn check_loss_rate_range_n3() { kv_range_case(3); }
#[kani::proof]
#[kani::unwind(11)]
fn check_loss_rate_range_n4() { kv_range_case(4); }
#[kani::proof]
#[kani::unwind(11)]
fn check_loss_rate_range_n5() { kv_range_case(5); }
#[kani::proof]
#[kani::unwind(11)]
fn check_loss_rate_range_n6() { kv_range_case(6); }
#[kani::proof]
#[kani::unwind(11)]
fn check_loss_rate_range_n7() { kv_range_case(7); }
#[kani::proof]
#[kani::unwind(11)]
fn check_loss_rate_range_n8() { kv_range_case(8); }
#[kani::proof]
#[kani::unwind(11)]
fn check_loss_rate_range_n9() { kv_range_case(9); }

/// RFC 5348 5.4 at concrete histories (the full-domain equality of two float computations is out of CBMC's reach: both
/// sides bit-blast to multiplier circuits whose equivalence SAT does not find in 600 s even for 3 intervals)
#[kani::proof]
#[kani::unwind(11)]
fn loss_rate_rfc_points() {
    let mk = |lens: &[u32]| { let mut q = LossIntervalQueue::new(); for l in lens { q.entries.push_back(LossInterval { end_time_ms: 0, length: *l }); } q };
    let close = |a: f64, b: f64| (a - b) <= 1e-12 && (b - a) <= 1e-12;
    // nine intervals of 100 frames: I_tot0 = I_tot1 = 600, W_tot = 6  =>  p = 0.01
    assert!(close(mk(&[100; 9]).compute_loss_rate(), 0.01), "C14: nine equal intervals of 100 => p = 1/100");
    // a long open interval counts (I_tot0 > I_tot1): (1000 + 3*100 + 80 + 60 + 40 + 20) = 1500  =>  p = 6/1500
    assert!(close(mk(&[1000, 100, 100, 100, 100, 100, 100, 100, 100]).compute_loss_rate(), 6.0 / 1500.0), "C14: the open interval counts when it raises the mean");
    // a short open interval is ignored (I_tot1 = 600 > I_tot0 = 1 + 500): p stays 0.01
    assert!(close(mk(&[1, 100, 100, 100, 100, 100, 100, 100, 100]).compute_loss_rate(), 0.01), "C14: a short open interval does not lower the mean");
    // older intervals weigh less: [10, 10, 10, 10, 10, 1000, 10, 10, 10]: I_tot0 = 10*4.8 + 600 + 4 + 2 = 654, I_tot1 = 10*4 + 800 + 6+4+2 = 852
    assert!(close(mk(&[10, 10, 10, 10, 10, 1000, 10, 10, 10]).compute_loss_rate(), 6.0 / 852.0), "C14: weights 1,1,1,1,0.8,0.6,0.4,0.2 shifted by one for I_tot1");
    // two intervals: p = w_0 / max(I_0, I_1)
    assert!(close(mk(&[5, 50]).compute_loss_rate(), 1.0 / 50.0) && close(mk(&[70, 50]).compute_loss_rate(), 1.0 / 70.0), "C14: two intervals");
    // one interval: p = 1 / I_0
    assert!(close(mk(&[8]).compute_loss_rate(), 0.125), "C14: single interval");
}

fn kv_reset_case(n: usize) {
    let (mut q, _) = kv_queue(n);
    let p0: f64 = kani::any();
    kani::assume(p0 > 0.0 && p0 <= 1.0);           // the initial loss rate handed over by handle_feedback (bisection result in (0, 1])
    let end0 = q.entries[0].end_time_ms;
    q.reset(p0);
    assert!(q.entries.len() == 1 && q.entries[0].end_time_ms == end0, "C14: reset keeps only the open interval");
    assert!(q.entries[0].length >= 1, "C03/C14: wf is kept: the synthetic first interval is at least one frame long");
}

/// the synthetic interval reproduces the initial loss rate: I_0 = round(1/p0), saturated (concrete points; see loss_rate_rfc_points)
#[kani::proof]
#[kani::unwind(11)]
fn loss_reset_points() {
    let mk = || { let mut q = LossIntervalQueue::new(); q.entries.push_back(LossInterval { end_time_ms: 7, length: 3 }); q.entries.push_back(LossInterval { end_time_ms: 5, length: 9 }); q };
    let mut q = mk(); q.reset(0.01);  assert!(q.entries.len() == 1 && q.entries[0].length == 100 && q.entries[0].end_time_ms == 7);
    let mut q = mk(); q.reset(1.0);   assert!(q.entries[0].length == 1);
    let mut q = mk(); q.reset(0.4);   assert!(q.entries[0].length == 3, "1/0.4 = 2.5 rounds half away from zero");
    let mut q = mk(); q.reset(1e-12); assert!(q.entries[0].length == u32::MAX, "saturates");
}

#[kani::proof]
#[kani::unwind(11)]
fn check_loss_reset_n1() { kv_reset_case(1); }
#[kani::proof]
#[kani::unwind(11)]
fn check_loss_reset_n2() { kv_reset_case(2); }
#[kani::proof]
#[kani::unwind(11)]
fn check_loss_reset_n9() { kv_reset_case(9); }

#[kani::proof]
#[kani::unwind(11)]
fn loss_cover_requires() {
    let (q, lens) = kv_queue(3);
    let p = q.compute_loss_rate();
    kani::cover!(p < 0.001 && lens[0] > 1000, "a small loss rate with a long open interval is reachable");
    kani::cover!(p == 1.0, "p == 1 is reachable");
}
