//@file src/half_connection/send_rate.rs
//@props C14 C03
//@harness floats_canary_must_fail props=C14,C03 kind=canary target=-
//
// canary: reachable (cover) and wrong (assert) -- a run in which this harness passes is vacuous

#[kani::proof]
#[kani::solver(cvc5)]
fn floats_canary_must_fail() {
    let v: u64 = kani::any();
    kani::cover!(v == 1500);
    assert!((v as f64) / 1000.0 != 1.5, "canary: 1500/1000 == 1.5 must be reported");
}
