//@file src/half_connection/recv_rate_set.rs
//@props C14 C03
// RecvRateSet (X_recv_set): Vec-based.  The unbounded statement is the Verus unit's (contracts/recv_rate_set.vspec proves these
// postconditions for every set size, `max` and `loss_increase_update` excepted).  Kani cannot prove
// `modifies(self)` contracts over a Vec-holding struct ("does not support reasoning about pointer to unallocated memory"),
// so there are NO contract attributes here.  Instead:
//   * the postconditions the float callers rely on are checked on the REAL bodies for every set of <= 3 entries
//     (harnesses below, labelled bounded);
//   * the callers replace the three updates by the abstract stubs `kv_stub_*` defined here, which assert the
//     precondition and then havoc the set subject to exactly those postconditions.
//@assumption RecvRateSet contracts (rate_limited_update / loss_increase_update / data_limited_update: precondition "set non-empty resp. all timestamps <= now_ms and rtt_ms <= u64::MAX/2"; postcondition "set non-empty, all timestamps <= now_ms, result == max of the set, result >= recv_rate for rate_limited/data_limited"): validated by the bounded harnesses rrs_sequence_never_empty / check_rrs_* (<= 3 entries, real bodies), assumed beyond.
//
//@harness check_rrs_reset_initial       props=C14,C03 kind=bounded target=RecvRateSet::reset_initial bound="entries.len() <= 3 on entry"
//@harness check_rrs_reset               props=C14,C03 kind=bounded target=RecvRateSet::reset bound="entries.len() <= 3 on entry"
//@harness check_rrs_max                 props=C14,C03 kind=bounded target=RecvRateSet::max bound="entries.len() <= 3"
//@harness check_rrs_rate_limited_update props=C14,C03 kind=bounded target=RecvRateSet::rate_limited_update bound="entries.len() <= 3 on entry"
//@harness check_rrs_loss_increase_update props=C14,C03 kind=bounded target=RecvRateSet::loss_increase_update bound="entries.len() <= 3 on entry"
//@harness check_rrs_data_limited_update props=C14,C03 kind=bounded target=RecvRateSet::data_limited_update bound="entries.len() <= 3 on entry"
//@harness rrs_sequence_never_empty      props=C14,C03 kind=bounded target=RecvRateSet bound="reset_initial followed by 2 arbitrary updates"

pub(crate) const KV_RRS_MAX: usize = 3;

impl RecvRateSet {
    /// every entry was recorded at or before now_ms (monotone clock): what makes `now_ms - e.timestamp_ms` safe
    pub(crate) fn kv_ts_le(&self, now_ms: u64) -> bool {
        let mut i = 0;
        while i < self.entries.len() { if self.entries[i].timestamp_ms > now_ms { return false; } i += 1; }
        true
    }
    /// independent maximum (None for the empty set)
    pub(crate) fn kv_max(&self) -> Option<u32> {
        let mut m: Option<u32> = None;
        let mut i = 0;
        while i < self.entries.len() {
            let v = self.entries[i].value;
            m = match m { None => Some(v), Some(x) => Some(if v > x { v } else { x }) };
            i += 1;
        }
        m
    }
    pub(crate) fn kv_len(&self) -> usize { self.entries.len() }
    pub(crate) fn kv_contains(&self, v: u32) -> bool {
        let mut i = 0;
        while i < self.entries.len() { if self.entries[i].value == v { return true; } i += 1; }
        false
    }

    // ---- abstract stand-ins used by the callers (assumed contracts, see //@assumption above) ----
    fn kv_havoc_post(&mut self, now_ms: u64) -> u32 {
        let post: RecvRateSet = kani::any();
        kani::assume(post.entries.len() >= 1 && post.kv_ts_le(now_ms));
        let r = post.kv_max().unwrap();
        *self = post;
        r
    }
    pub(crate) fn kv_stub_rate_limited_update(&mut self, now_ms: u64, recv_rate: u32, rtt_ms: u64) -> u32 {
        assert!(self.kv_ts_le(now_ms) && rtt_ms <= u64::MAX / 2, "precondition of rate_limited_update at its call site");
        let r = self.kv_havoc_post(now_ms);
        kani::assume(r >= recv_rate && self.kv_contains(recv_rate));
        r
    }
    pub(crate) fn kv_stub_loss_increase_update(&mut self, now_ms: u64, _recv_rate: u32) -> u32 {
        assert!(!self.entries.is_empty(), "precondition of loss_increase_update at its call site");
        self.kv_havoc_post(now_ms)
    }
    pub(crate) fn kv_stub_data_limited_update(&mut self, now_ms: u64, recv_rate: u32) -> u32 {
        assert!(!self.entries.is_empty(), "precondition of data_limited_update at its call site");
        let r = self.kv_havoc_post(now_ms);
        kani::assume(r >= recv_rate);
        r
    }
}

impl kani::Arbitrary for RecvRateSet {
    /// any set of 0..=3 entries, every field of every entry unconstrained
    fn any() -> Self {
        let e = || RecvEntry { value: kani::any(), timestamp_ms: kani::any(), is_initial: kani::any() };
        let entries = match kani::any::<u8>() & 3 {
            0 => Vec::new(),
            1 => vec![e()],
            2 => vec![e(), e()],
            _ => vec![e(), e(), e()],
        };
        RecvRateSet { entries }
    }
}

#[kani::proof]
#[kani::unwind(6)]
fn check_rrs_reset_initial() {
    let mut s: RecvRateSet = kani::any();
    let now: u64 = kani::any();
    s.reset_initial(now);
    assert!(s.entries.len() == 1 && s.kv_ts_le(now) && s.kv_max() == Some(u32::MAX));
}

#[kani::proof]
#[kani::unwind(6)]
fn check_rrs_reset() {
    let mut s: RecvRateSet = kani::any();
    let now: u64 = kani::any(); let rate: u32 = kani::any();
    s.reset(now, rate);
    assert!(s.entries.len() == 1 && s.kv_ts_le(now) && s.kv_max() == Some(rate));
}

#[kani::proof]
#[kani::unwind(6)]
fn check_rrs_max() {
    let s: RecvRateSet = kani::any();
    kani::assume(!s.entries.is_empty());
    assert!(Some(s.max()) == s.kv_max(), "C14: max() returns the maximum of a non-empty set");
}

fn rlu_case(mut s: RecvRateSet) {
    let now: u64 = kani::any(); let rate: u32 = kani::any(); let rtt_ms: u64 = kani::any();
    kani::assume(s.kv_ts_le(now) && rtt_ms <= u64::MAX / 2);
    let r = s.rate_limited_update(now, rate, rtt_ms);
    assert!(!s.entries.is_empty(), "C14/C03: the set is never empty after a rate-limited update (D3)");
    assert!(s.kv_ts_le(now) && Some(r) == s.kv_max() && r >= rate && s.kv_contains(rate));
}

/// the call sits inside each arm so that the Vec length is concrete on every path (a symbolic length through
/// Vec::retain did not finish in 240 s)
#[kani::proof]
#[kani::unwind(7)]
fn check_rrs_rate_limited_update() {
    let e = || RecvEntry { value: kani::any(), timestamp_ms: kani::any(), is_initial: kani::any() };
    match kani::any::<u8>() & 3 {
        0 => rlu_case(RecvRateSet { entries: Vec::new() }),
        1 => rlu_case(RecvRateSet { entries: vec![e()] }),
        2 => rlu_case(RecvRateSet { entries: vec![e(), e()] }),
        _ => rlu_case(RecvRateSet { entries: vec![e(), e(), e()] }),
    }
}

#[kani::proof]
#[kani::unwind(6)]
fn check_rrs_loss_increase_update() {
    let mut s: RecvRateSet = kani::any();
    kani::assume(!s.entries.is_empty());
    let now: u64 = kani::any(); let rate: u32 = kani::any();
    let r = s.loss_increase_update(now, rate);
    assert!(s.entries.len() == 1 && s.kv_ts_le(now) && Some(r) == s.kv_max());
}

#[kani::proof]
#[kani::unwind(6)]
fn check_rrs_data_limited_update() {
    let mut s: RecvRateSet = kani::any();
    kani::assume(!s.entries.is_empty());
    let now: u64 = kani::any(); let rate: u32 = kani::any();
    let r = s.data_limited_update(now, rate);
    assert!(s.entries.len() == 1 && s.kv_ts_le(now) && Some(r) == s.kv_max() && r >= rate);
}

/// property form: after reset_initial the set never becomes empty and every update returns the maximum of a
/// non-empty set (real bodies, no stubs; two arbitrary updates at non-decreasing times, any rtt incl. 0)
#[kani::proof]
#[kani::unwind(7)]
fn rrs_sequence_never_empty() {
    let mut s = RecvRateSet::new();
    let t0: u64 = kani::any();
    s.reset_initial(t0);
    assert!(s.kv_len() == 1);
    let mut now = t0;
    let mut k = 0;
    while k < 2 {
        let dt: u64 = kani::any();
        kani::assume(dt <= (1u64 << 62) && now <= (1u64 << 62));
        now += dt;
        let rate: u32 = kani::any();
        let rtt_ms: u64 = kani::any();
        kani::assume(rtt_ms <= u64::MAX / 2);
        let r = match kani::any::<u8>() % 4 {
            0 => s.rate_limited_update(now, rate, rtt_ms),
            1 => s.loss_increase_update(now, rate),
            2 => s.data_limited_update(now, rate),
            _ => { s.reset(now, rate); rate }
        };
        assert!(s.kv_len() >= 1);
        assert!(Some(r) == s.kv_max());
        assert!(s.kv_ts_le(now));
        k += 1;
    }
}
