//@file src/half_connection/frame_queue.rs
//@props C14 C15 C03
// FeedbackGen::get_feedback: the one f64 function of frame_queue.rs (receive rate = acknowledged bytes / seconds since the last
// feedback, RFC 5348 6.2 "X_recv").  Verus sees it as an external function with a pinned frame contract
// (contracts/frame_queue.vspec); these harnesses check that contract on the real body: the integer facts for ALL inputs
// (complete, loop-free), the receive-rate formula at concrete points (bounded: the equality of two symbolic float
// divisions is out of CBMC's reach, see loss.rs).
//
//@assumption get_feedback: the case `0 bytes acknowledged in a 0 ms interval` (0/0) is excluded: ack data is recorded only when a non-empty frame was newly acknowledged (frame_queue.vspec, acknowledge_group (d))
//@harness check_get_feedback_contract      props=C14,C15,C03 kind=full target=FeedbackGen::get_feedback
//@harness check_get_feedback_none          props=C15,C03 kind=full target=FeedbackGen::get_feedback
//@harness get_feedback_receive_rate_points props=C14 kind=bounded target=FeedbackGen::get_feedback bound="5 concrete (bytes, interval) points against X_recv = bytes / seconds, incl. interval 0 and the u32 saturation"

fn kv_gen() -> FeedbackGen { FeedbackGen::new(kani::any(), 8192) }

/// the contract Verus assumes: the pending ack data is consumed, the feedback time is stamped, the RTT sample is
/// `now - newest acknowledged send time`, the rate-limited mark is passed on; no panic, no overflow (that the reorder buffer
/// and the loss history are not touched is read off the pinned 20-line body: their fields are private to other modules)
#[kani::proof]
#[kani::unwind(4)]
fn check_get_feedback_contract() {
    let mut g = kv_gen();
    let now: u64 = kani::any();
    let a = AckData { last_send_time_ms: kani::any(), total_ack_size: kani::any(), rate_limited: kani::any() };
    let last: Option<u64> = kani::any();
    kani::assume(a.last_send_time_ms <= now);                         // precondition (monotone clock)
    kani::assume(match last { Some(t) => t <= now, None => true });   // precondition (monotone clock)
    // 0 bytes acknowledged in 0 ms would be 0/0 = NaN (-> receive rate 0, no panic); ack data is only recorded for newly
    // acknowledged frames, which are never empty, so the case is excluded rather than specified
    kani::assume(a.total_ack_size >= 1 || match last { Some(t) => t < now, None => true });
    let (send, lim) = (a.last_send_time_ms, a.rate_limited);
    g.ack_data = Some(a);
    g.last_feedback_ms = last;
    let r = g.get_feedback(now);
    assert!(g.ack_data.is_none(), "C15: the pending ack data is consumed");
    assert!(g.last_feedback_ms == Some(now), "C14: the feedback time is stamped");
    match r {
        Some(fb) => {
            assert!(fb.rtt_ms == now - send, "C14/C15: the RTT sample is now - newest acknowledged send time");
            assert!(fb.rate_limited == lim, "C14: the rate-limited mark is passed on");
            assert!(fb.loss_rate.to_bits() == 0.0f64.to_bits(), "C14: no loss history => p == 0");
            assert!(last.is_some() || fb.receive_rate == 0, "C14: no previous feedback => receive rate 0 (first report)");
        }
        None => assert!(false, "pending ack data always produces a report"),
    }
}

/// without pending ack data nothing happens
#[kani::proof]
#[kani::unwind(4)]
fn check_get_feedback_none() {
    let mut g = kv_gen();
    let last: Option<u64> = kani::any();
    g.last_feedback_ms = last;
    let r = g.get_feedback(kani::any());
    assert!(r.is_none() && g.ack_data.is_none() && g.last_feedback_ms == last, "C15: no acknowledgement => no feedback, no state change");
}

#[kani::proof]
#[kani::unwind(4)]
fn get_feedback_receive_rate_points() {
    let run = |bytes: usize, last: u64, now: u64| {
        let mut g = FeedbackGen::new(0, 8192);
        g.ack_data = Some(AckData { last_send_time_ms: 0, total_ack_size: bytes, rate_limited: false });
        g.last_feedback_ms = Some(last);
        g.get_feedback(now).unwrap().receive_rate
    };
    assert!(run(100_000, 1000, 1500) == 200_000, "C14: 100 kB in 0.5 s = 200 kB/s");
    assert!(run(1472, 0, 1000) == 1472, "C14: one segment in one second");
    assert!(run(3, 10, 2010) == 1, "C14: truncation towards zero (1.5 B/s -> 1)");
    assert!(run(5_000_000, 7, 8) == u32::MAX, "C14: saturates at u32::MAX (5 GB/s)");
    assert!(run(10, 5, 5) == u32::MAX, "C14: interval 0 => +inf, saturated");
}
