//@file src/half_connection/send_rate.rs
//@props C13
// no harness here: a struct-literal constructor so that the refill harness can choose X and the RTT estimate

impl SendRateComp {
    pub(crate) fn kv_with(send_rate: u32, rtt_s: Option<f64>) -> Self {
        SendRateComp {
            prev_loss_rate: 0.0, nofeedback_exp_ms: None, nofeedback_idle: false,
            mode: SendRateMode::AwaitSend, send_rate, max_send_rate: u32::MAX,
            recv_rate_set: recv_rate_set::RecvRateSet::new(), rtt_s, rtt_ms: None, rto_ms: None,
        }
    }
}
