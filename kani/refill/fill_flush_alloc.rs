//@file src/half_connection/mod.rs
//@props C13 C03
// C13 refill half.  `fill_flush_alloc(&mut self, now)` is a method of HalfConnection, which cannot be built in Kani
// (PacketReceiver/AssemblyWindow allocate 4096-slot arrays; their fields are private to child modules, so no struct
// literal either).  The function reads/writes exactly four fields: time_last_flushed, send_rate_comp (send_rate, rtt_s),
// flush_alloc, flush_alloc_frac.  The harness therefore materialises a HalfConnection *place* (MaybeUninit), initialises
// those four fields and calls the REAL method on it; the place is never dropped.  (Kani 0.68's `-Z uninit-checks`, which
// would turn an access to any other field into a reported check, crashes kani-compiler on this crate
// [check_uninit/delayed_ub/mod.rs:75 unwrap on None], so that self-check is NOT active; the four-field footprint is
// pinned instead: the harness module asserts the function text mentions no other `self.` field -- see the driver's
// `//@footprint` directive.)
//
//@footprint HalfConnection::fill_flush_alloc self.time_last_flushed self.send_rate_comp self.flush_alloc self.flush_alloc_frac
//@harness fill_carry_in_range       props=C13,C03 kind=full target=HalfConnection::fill_flush_alloc needs=elapsed_seconds_range
//@harness check_fill_credit_bound   props=C13,C03 kind=full target=HalfConnection::fill_flush_alloc needs=elapsed_seconds_range
//@harness check_fill_cap            props=C13 kind=full target=HalfConnection::fill_flush_alloc needs=elapsed_seconds_range
//@harness elapsed_seconds_range     props=C13,C03 kind=full target=HalfConnection::fill_flush_alloc
//@harness instant_sub_saturates     props=C13,C03 kind=full target=HalfConnection::fill_flush_alloc tier=off
//@assumption std::time::Instant subtraction saturates at zero and never panics (documented std behaviour since Rust 1.60). NOT decided by Kani in the quick tier: harness instant_sub_saturates (tier=off) gave no verdict in 150 s (quick) nor in 960 s (thorough), also with concrete nanosecond parts.
//@harness check_fill_flush_alloc_monolithic props=C13,C03 kind=full target=HalfConnection::fill_flush_alloc tier=off
//@harness fill_first_call_no_credit props=C13 kind=full target=HalfConnection::fill_flush_alloc
//@harness refill_cover_requires    props=C13 kind=cover target=HalfConnection::fill_flush_alloc
//@harness refill_canary_must_fail  props=C13 kind=canary target=HalfConnection::fill_flush_alloc

use std::mem::MaybeUninit;
use std::ptr::addr_of_mut;

fn instant_at(secs: u64, nanos: u32) -> time::Instant {
    // Instant has no public constructor besides now(); all-zero is a valid value (tv_sec = 0, tv_nsec = 0) and
    // Instant + Duration is pure arithmetic -- no clock is consulted.
    let base: time::Instant = unsafe { std::mem::zeroed() };
    base + time::Duration::new(secs, nanos)
}

struct Place { mem: MaybeUninit<HalfConnection> }
impl Place {
    fn new(last: Option<time::Instant>, rate: u32, rtt_s: Option<f64>, alloc: isize, frac: f64) -> Self {
        let mut mem = MaybeUninit::<HalfConnection>::uninit();
        let p = mem.as_mut_ptr();
        unsafe {
            addr_of_mut!((*p).time_last_flushed).write(last);
            addr_of_mut!((*p).send_rate_comp).write(send_rate::SendRateComp::kv_with(rate, rtt_s));
            addr_of_mut!((*p).flush_alloc).write(alloc);
            addr_of_mut!((*p).flush_alloc_frac).write(frac);
        }
        Place { mem }
    }
    fn hc(&mut self) -> &mut HalfConnection { unsafe { &mut *self.mem.as_mut_ptr() } }
}

// Modular split: the elapsed time `(now - last).as_secs_f64()` is the only expensive sub-term (u64->f64, u32->f64,
// division by 1e9).  The three `fill_*`/`check_fill_*` harnesses replace Duration::as_secs_f64 by a recording stub that
// returns ANY dt in [0, 2^41 + 1] -- an over-approximation of the real function on the instants considered, justified by
// harness `elapsed_seconds_range` on the real std code (instants up to 2^40 s apart from the zero base).  With dt named,
// x = X*dt + carry is written down once more in the harness and compared with what the real body stored.
static mut DT: f64 = 0.0;
static mut DT_CALLS: u32 = 0;
fn rec_as_secs_f64(_d: &time::Duration) -> f64 {
    let dt: f64 = kani::any();
    kani::assume(dt >= 0.0 && dt <= 2199023255553.0);
    unsafe { DT = dt; DT_CALLS += 1; }
    dt
}

struct Case { rate: u32, rtt_s: Option<f64>, alloc: isize, frac: f64, now: time::Instant, pl: Place }
fn any_case() -> Case {
    let rate: u32 = kani::any();
    let rtt_s: Option<f64> = kani::any();
    kani::assume(match rtt_s { None => true, Some(r) => r >= 0.0 && r <= 4503599627370496.0 });
    let alloc: isize = kani::any();
    let frac: f64 = kani::any();
    kani::assume(frac >= 0.0 && frac < 1.0);
    // the instants are concrete: with as_secs_f64 stubbed the elapsed time is arbitrary whatever they are, and the
    // (integer) Instant subtraction itself is covered for all instants by `elapsed_seconds_range`
    let now = instant_at(2, 0);
    let pl = Place::new(Some(instant_at(1, 0)), rate, rtt_s, alloc, frac);
    Case { rate, rtt_s, alloc, frac, now, pl }
}

/// no panic / no NaN for every rate, rtt estimate, balance, carry and elapsed time; the carry stays in [0,1)
#[kani::proof]
#[kani::stub(std::time::Duration::as_secs_f64, rec_as_secs_f64)]
fn fill_carry_in_range() {
    let mut c = any_case();
    c.pl.hc().fill_flush_alloc(c.now);
    let hc = c.pl.hc();
    assert!(hc.flush_alloc_frac >= 0.0 && hc.flush_alloc_frac < 1.0, "C13: 0 <= flush_alloc_frac < 1 preserved");
    assert!(hc.time_last_flushed == Some(c.now));
    assert!(unsafe { DT_CALLS } == 1);
    if c.rate == 0 { assert!(hc.flush_alloc <= c.alloc, "no credit at rate 0"); }
}

/// credit of one step: with x = X*dt + carry (f64, as evaluated by the code), credit = floor(x) <= x,
/// new carry == x - floor(x) (nothing rounded up, D15), balance <= old + credit (saturating)
#[kani::proof]
#[kani::solver(cvc5)]
#[kani::stub(std::time::Duration::as_secs_f64, rec_as_secs_f64)]
fn check_fill_credit_bound() {
    let mut c = any_case();
    c.pl.hc().fill_flush_alloc(c.now);
    let hc = c.pl.hc();
    let x = (c.rate as f64) * unsafe { DT } + c.frac;
    let credit = x.floor();
    assert!(credit <= x && x - credit < 1.0 && credit >= 0.0);
    assert!(hc.flush_alloc_frac == x - credit, "C13: the fractional byte is carried, not rounded away or up");
    let credit_i = credit as isize;                       // x <= 2^32 * (2^41+1) + 1 < 2^63: the cast is exact
    assert!(hc.flush_alloc <= c.alloc.saturating_add(credit_i), "C13: new flush_alloc <= old + floor(X*dt + carry)");
}

/// cap: balance <= round(X * rtt) (0 while there is no rtt estimate), and the balance is one of the two candidates
#[kani::proof]
#[kani::solver(cvc5)]
#[kani::stub(std::time::Duration::as_secs_f64, rec_as_secs_f64)]
fn check_fill_cap() {
    let mut c = any_case();
    c.pl.hc().fill_flush_alloc(c.now);
    let hc = c.pl.hc();
    let cap = ((c.rate as f64) * c.rtt_s.unwrap_or(0.0)).round() as isize;
    assert!(hc.flush_alloc <= cap, "C13: new flush_alloc <= round(X * rtt)");
    if c.rtt_s.is_none() { assert!(hc.flush_alloc <= 0); }
}

/// justification of the dt stub on the real std code, part 1 (floats): every Duration of at most 2^41 s converts to a
/// finite f64 in [0, secs + 1]; the zero Duration converts to 0
#[kani::proof]
#[kani::solver(cvc5)]
fn elapsed_seconds_range() {
    let s: u64 = kani::any(); let n: u32 = kani::any();
    kani::assume(s <= (1u64 << 41) && n < 1_000_000_000);
    let dt = time::Duration::new(s, n).as_secs_f64();
    assert!(dt >= 0.0 && dt <= 2199023255553.0 && dt <= (s as f64) + 1.0);
    if s == 0 && n == 0 { assert!(dt == 0.0); }
}

/// part 2 (integers): Instant subtraction never panics, saturates at zero, and yields at most the later offset
#[kani::proof]
fn instant_sub_saturates() {
    let s0: u64 = kani::any(); let n0: u32 = kani::any(); let s1: u64 = kani::any(); let n1: u32 = kani::any();
    kani::assume(s0 <= (1u64 << 40) && s1 <= (1u64 << 40) && n0 < 1_000_000_000 && n1 < 1_000_000_000);
    let d = instant_at(s1, n1) - instant_at(s0, n0);
    assert!(d.as_secs() <= s1 && d.subsec_nanos() < 1_000_000_000);
    if s1 < s0 || (s1 == s0 && n1 <= n0) { assert!(d.as_secs() == 0 && d.subsec_nanos() == 0); }
}

/// monolithic form (real as_secs_f64 inlined; tier=off: no verdict within 960 s under cvc5, 420 s under kissat / cadical).
/// independent statement of the credit rule (property C13 / D15): with x = X*dt + carry,
///   credit = floor(x) <= x,  new carry = x - credit in [0,1),  balance <= min(old + credit, round(X * rtt))
#[kani::proof]
#[kani::solver(cvc5)]
fn check_fill_flush_alloc_monolithic() {
    let rate: u32 = kani::any();
    let rtt_s: Option<f64> = kani::any();
    kani::assume(match rtt_s { None => true, Some(r) => r >= 0.0 && r <= 4503599627370496.0 });
    let alloc: isize = kani::any();
    let frac: f64 = kani::any();
    kani::assume(frac >= 0.0 && frac < 1.0);
    let s0: u64 = kani::any(); let n0: u32 = kani::any(); let s1: u64 = kani::any(); let n1: u32 = kani::any();
    kani::assume(s0 <= (1u64 << 40) && s1 <= (1u64 << 40) && n0 < 1_000_000_000 && n1 < 1_000_000_000);
    let last = instant_at(s0, n0);
    let now = instant_at(s1, n1);

    let mut pl = Place::new(Some(last), rate, rtt_s, alloc, frac);
    pl.hc().fill_flush_alloc(now);
    let hc = pl.hc();

    let new_alloc = hc.flush_alloc;
    let new_frac = hc.flush_alloc_frac;
    // carry invariant
    assert!(new_frac >= 0.0 && new_frac < 1.0, "C13: 0 <= flush_alloc_frac < 1 preserved");
    // exact credit of this step
    let dt = (now - last).as_secs_f64();
    let x = (rate as f64) * dt + frac;
    let credit = x.floor();
    assert!(credit <= x && x - credit < 1.0);
    assert!(new_frac == x - credit, "C13: the fractional byte is carried, not rounded away or up");
    let credit_i = credit as isize;                     // x <= 2^32 * 2^41 + 1 < 2^63: exact
    assert!(new_alloc <= alloc.saturating_add(credit_i), "C13: balance <= old + floor(X*dt + carry)");
    let cap = ((rate as f64) * rtt_s.unwrap_or(0.0)).round() as isize;
    assert!(new_alloc <= cap, "C13: balance <= round(X * rtt)");
    assert!(new_alloc == alloc.saturating_add(credit_i) || new_alloc == cap);
    assert!(hc.time_last_flushed == Some(now));
    // now earlier than the last flush (Instant subtraction saturates): no credit at all
    if s1 < s0 { assert!(new_alloc <= alloc && new_frac == frac); }
}

#[kani::proof]
#[kani::solver(cvc5)]
fn fill_first_call_no_credit() {
    let alloc: isize = kani::any();
    let frac: f64 = kani::any();
    kani::assume(frac >= 0.0 && frac < 1.0);
    let now = instant_at(kani::any::<u32>() as u64, 0);
    let mut pl = Place::new(None, kani::any(), kani::any(), alloc, frac);
    pl.hc().fill_flush_alloc(now);
    let hc = pl.hc();
    assert!(hc.flush_alloc == alloc && hc.flush_alloc_frac == frac && hc.time_last_flushed == Some(now));
}

/// vacuity: the preconditions used above are satisfiable and the call returns (covers do not depend on what the
/// function computes, so a wrong body cannot turn this into UNDECIDED)
#[kani::proof]
#[kani::stub(std::time::Duration::as_secs_f64, rec_as_secs_f64)]
fn refill_cover_requires() {
    let mut c = any_case();
    kani::cover!(c.frac > 0.5 && c.rate == 1472 && c.rtt_s.is_some() && c.alloc < 0);
    kani::cover!(c.rtt_s.is_none() && c.rate == u32::MAX && c.alloc == isize::MAX);
    c.pl.hc().fill_flush_alloc(c.now);
    kani::cover!(unsafe { DT } > 0.0004 && unsafe { DT } < 0.0005);
    kani::cover!(unsafe { DT } == 2199023255553.0);
}

/// canary: independent of the code under test -- a reachable, false float assertion the engine must report
#[kani::proof]
fn refill_canary_must_fail() {
    let x: f64 = kani::any();
    kani::assume(x >= 0.0 && x < 1.0);
    kani::cover!(x == 0.5);
    assert!(x.floor() != 0.0, "canary: floor(x) == 0 for x in [0,1) must be reported");
}
