//@file src/frame/serial/mod.rs
//@props C19
//@no-native-replay the default allocator neither checks dealloc layouts nor reports leaks, so a native run of the counterexample passes silently; the counterexample values are still extracted
// C19 on the fixed-size writers reached through Frame::write (Box::new([..]) coerced to Box<[u8]>) and on the
// builder-backed ack writer; crc::compute stubbed as in frame_build.rs.
//
//@harness fw_write_fixed_frames props=C19 kind=bounded target=Frame::write bound="HandshakeAck, Sync, Disconnect frames (all field values symbolic) -> write -> drop; crc stubbed"
//@harness fw_write_ack_frame    props=C19 kind=bounded target=Frame::write bound="AckFrame with 2 groups -> write (AckFrameBuilder) -> drop frame bytes and the frame; crc stubbed"

fn any_crc(_data: &[u8]) -> u32 { kani::any() }

fn write_and_drop(f: Frame, expect_len: usize) {
    let bytes = f.write();
    assert!(bytes.len() == expect_len);
    drop(bytes);
    drop(f);
}

/// Frame::write is called with the variant fixed on each path (a symbolic variant makes the data-frame writer's loops
/// reachable and the harness did not finish in 240 s)
#[kani::proof]
#[kani::unwind(2)]
#[kani::stub(crate::frame::serial::crc::compute, any_crc)]
fn fw_write_fixed_frames() {
    match kani::any::<u8>() % 3 {
        0 => write_and_drop(Frame::HandshakeAckFrame(HandshakeAckFrame { nonce_ack: kani::any() }), 9),
        1 => write_and_drop(Frame::SyncFrame(SyncFrame { next_frame_id: kani::any(), next_packet_id: kani::any() }), 14),
        _ => write_and_drop(Frame::DisconnectFrame(DisconnectFrame {}), 5),
    }
}

#[kani::proof]
#[kani::unwind(4)]
#[kani::stub(crate::frame::serial::crc::compute, any_crc)]
fn fw_write_ack_frame() {
    let g = || AckGroup { base_id: kani::any(), bitfield: kani::any(), nonce: kani::any() };
    let f = Frame::AckFrame(AckFrame { frame_window_base_id: kani::any(), packet_window_base_id: kani::any(), frame_acks: vec![g(), g()] });
    let bytes = f.write();
    assert!(bytes.len() == 11 + 2 * ACK_GROUP_SIZE + FRAME_CRC_SIZE);
    drop(bytes);
    drop(f);
}
