//@file src/half_connection/packet_receiver/assembly_window/fragment_buffer.rs
//@props C19
//@no-native-replay the default allocator neither checks dealloc layouts nor reports leaks, so a native run of the counterexample passes silently (that is why the tests cannot see C19); the counterexample values are still extracted
//@cbmc-args --memory-leak-check
// C19: allocator contract of the reassembly buffer.  Kani's __rust_dealloc model asserts that the layout passed to
// dealloc equals the layout of the allocation (this is the check the pre-fix `Box::from_raw` of a shorter slice
// violated, D11); CBMC's --memory-leak-check asserts that nothing allocated inside the harness is still live at its end.
//
//@harness fb_lifecycle_finalize     props=C19 kind=bounded target=FragmentBuffer::finalize bound="new(2) -> write(0) -> write(1) -> finalize -> drop; last fragment length in {0,1,724,1447,1448}" tier=off
//@harness fb_finalize_two_fragment_buffer props=C19 kind=bounded target=FragmentBuffer::finalize bound="2-fragment buffer (2896 bytes) built by struct literal, total_size symbolic in 0..=2896, finalize -> drop (no writes)"
//@harness fb_lifecycle_single       props=C19 kind=bounded target=FragmentBuffer::finalize bound="new(1) -> write(0) -> finalize -> drop; fragment length symbolic in 0..=1448"
//@harness fb_drop_without_finalize  props=C19 kind=bounded target=FragmentBuffer::write bound="new(2) -> write(k) -> drop, k symbolic in {0,1}, length symbolic"
//@harness heap_canary_must_fail     props=C19 kind=canary target=FragmentBuffer::finalize

fn boxed(len: usize) -> Box<[u8]> {
    let mut v = vec![0u8; len].into_boxed_slice();
    if len > 0 { v[0] = kani::any(); }
    v
}

fn two_fragments() -> (FragmentBuffer, u8, usize) {
    // five representative lengths (a fully symbolic length over a 2896-byte buffer did not finish in 240 s; the
    // single-fragment harness below covers every length 0..=1448 symbolically)
    let last_len: usize = match kani::any::<u8>() % 5 { 0 => 0, 1 => 1, 2 => 724, 3 => MAX_FRAGMENT_SIZE - 1, _ => MAX_FRAGMENT_SIZE };
    let mut fb = FragmentBuffer::new(2);
    let f0 = boxed(MAX_FRAGMENT_SIZE);
    let first = f0[0];
    fb.write(0, f0);
    fb.write(1, boxed(last_len));
    assert!(fb.is_finished());
    (fb, first, last_len)
}

#[kani::proof]
fn fb_lifecycle_finalize() {
    let (fb, first, last_len) = two_fragments();
    kani::cover!(last_len == 0);
    kani::cover!(last_len == 724);
    kani::cover!(last_len == MAX_FRAGMENT_SIZE);
    let out = fb.finalize();
    assert!(out.len() == MAX_FRAGMENT_SIZE + last_len);
    assert!(out[0] == first);
    drop(out);              // __rust_dealloc(ptr, layout): layout must be the one the block was allocated with
}

/// finalize on a 2-fragment buffer for EVERY total_size (the state write() would have produced, built directly: the
/// full new(2) -> write -> write life cycle [fb_lifecycle_finalize, tier=off] gave no verdict in 960 s)
#[kani::proof]
fn fb_finalize_two_fragment_buffer() {
    let total: usize = kani::any();
    kani::assume(total <= 2 * MAX_FRAGMENT_SIZE);
    let fb = FragmentBuffer {
        buffer: vec![0u8; 2 * MAX_FRAGMENT_SIZE].into_boxed_slice(),
        fragment_bitfields: vec![3u64; 1].into_boxed_slice(),
        num_fragments: 2, fragments_remaining: 0, total_size: total,
    };
    let out = fb.finalize();
    assert!(out.len() == total);
    drop(out);
}

#[kani::proof]
fn fb_lifecycle_single() {
    let len: usize = kani::any();
    kani::assume(len <= MAX_FRAGMENT_SIZE);
    let mut fb = FragmentBuffer::new(1);
    fb.write(0, boxed(len));
    assert!(fb.is_finished());
    let out = fb.finalize();
    assert!(out.len() == len);
    drop(out);
}

#[kani::proof]
fn fb_drop_without_finalize() {
    let k: usize = kani::any();
    kani::assume(k < 2);
    let len: usize = kani::any();
    kani::assume(if k == 1 { len <= MAX_FRAGMENT_SIZE } else { len == MAX_FRAGMENT_SIZE });
    let mut fb = FragmentBuffer::new(2);
    fb.write(k, boxed(len));
    assert!(!fb.is_finished());
    drop(fb);
}

#[kani::proof]
fn heap_canary_must_fail() {
    // a leak CBMC's --memory-leak-check must report
    let b = boxed(8);
    kani::cover!(b.len() == 8);
    std::mem::forget(b);
}
