//@file src/frame/serial/build.rs
//@props C19
//@no-native-replay the default allocator neither checks dealloc layouts nor reports leaks, so a native run of the counterexample passes silently; the counterexample values are still extracted
// C19 on the sender's serialisation buffers: DataFrameBuilder / AckFrameBuilder grow a Vec<u8> and hand it out as
// Box<[u8]>; the harness drops that Box, so Kani's dealloc-layout assertion compares the layout at release with the one
// at allocation, and --memory-leak-check (group flag) sees anything left behind.  crc::compute is replaced by a stub
// returning ANY u32 (the CRC loop over up to 1468 bytes is irrelevant to heap discipline and belongs to C16).
//
//@harness df_build_full_frame   props=C19 kind=bounded target=DataFrameBuilder::build bound="new -> add(one 1448-byte fragment datagram, large header) -> frame of exactly MAX_FRAME_SIZE = 1472 bytes -> build -> drop; crc stubbed"
//@harness df_build_small_frame  props=C19 kind=bounded target=DataFrameBuilder::build bound="new -> add(one datagram, payload length symbolic 0..=70: micro and small headers) -> build -> drop; crc stubbed"
//@harness df_drop_unbuilt       props=C19 kind=bounded target=DataFrameBuilder::add bound="new -> add(1448-byte datagram) -> drop without build"
//@harness ack_build             props=C19 kind=bounded target=AckFrameBuilder::build bound="new -> add n groups, n symbolic 0..=3 -> build -> drop; crc stubbed"

fn any_crc(_data: &[u8]) -> u32 { kani::any() }

#[kani::proof]
#[kani::stub(crate::frame::serial::crc::compute, any_crc)]
fn df_build_full_frame() {
    let payload = vec![0u8; 1448].into_boxed_slice();
    let dg = DatagramRef { sequence_id: 7, channel_id: 3, window_parent_lead: 0, channel_parent_lead: 0,
                           fragment_id: 0, fragment_id_last: 1, data: &payload };
    let mut b = DataFrameBuilder::new(kani::any(), kani::any());
    b.add(&dg);
    assert!(b.size() == crate::MAX_FRAME_SIZE && b.count() == 1);
    let frame = b.build();
    assert!(frame.len() == crate::MAX_FRAME_SIZE);
    drop(frame);            // release of the frame bytes: size at dealloc must equal size at alloc
    drop(payload);
}

#[kani::proof]
#[kani::stub(crate::frame::serial::crc::compute, any_crc)]
fn df_build_small_frame() {
    let len: usize = kani::any();
    kani::assume(len <= 70);
    let payload = vec![0u8; len].into_boxed_slice();
    let dg = DatagramRef { sequence_id: 7, channel_id: 63, window_parent_lead: 1, channel_parent_lead: 1,
                           fragment_id: 0, fragment_id_last: 0, data: &payload };
    let mut b = DataFrameBuilder::new(1, true);
    b.add(&dg);
    let expect = 6 + DataFrameBuilder::encoded_size(&dg) + FRAME_CRC_SIZE;
    assert!(b.size() == expect);
    let frame = b.build();
    assert!(frame.len() == expect);
    drop(frame);
    drop(payload);
}

#[kani::proof]
fn df_drop_unbuilt() {
    let payload = vec![0u8; 1448].into_boxed_slice();
    let dg = DatagramRef { sequence_id: 7, channel_id: 3, window_parent_lead: 0, channel_parent_lead: 0,
                           fragment_id: 1, fragment_id_last: 1, data: &payload };
    let mut b = DataFrameBuilder::new(0, false);
    b.add(&dg);
    drop(b);
    drop(payload);
}

#[kani::proof]
#[kani::unwind(5)]
#[kani::stub(crate::frame::serial::crc::compute, any_crc)]
fn ack_build() {
    let n: usize = kani::any();
    kani::assume(n <= 3);
    let mut b = AckFrameBuilder::new(kani::any(), kani::any());
    let mut i = 0;
    while i < n {
        b.add(&AckGroup { base_id: kani::any(), bitfield: kani::any(), nonce: kani::any() });
        i += 1;
    }
    let expect = 11 + n * ACK_GROUP_SIZE + FRAME_CRC_SIZE;
    assert!(b.size() == expect);
    let frame = b.build();
    assert!(frame.len() == expect);
    drop(frame);
}
