//@file src/half_connection/packet_receiver/assembly_window/mod.rs
//@props C19
//@no-native-replay the default allocator neither checks dealloc layouts nor reports leaks, so a native run of the counterexample passes silently (that is why the tests cannot see C19); the counterexample values are still extracted
// C19 over the REAL AssemblyWindow code (try_add / clear / drop glue of WindowEntry, ActiveEntry, FragmentBuffer), with
// CBMC's --memory-leak-check (group flag set in fragment_buffer.rs) and Kani's dealloc-layout assertion.  The window is
// built by struct literal with 2 slots (AssemblyWindow::new allocates 4096 slots and is out of Kani's reach; try_add /
// clear index `self.window[idx]` and work for any length).  Every datagram satisfies datagram_is_valid (asserted).
//
//@harness aw_clear_partial_no_leak  props=C19 kind=bounded target=AssemblyWindow::clear   bound="2 slots; fragment 0 of a 2-fragment packet (1448 concrete bytes) -> Active -> clear(0) -> drop window"
//@harness aw_drop_partial_no_leak   props=C19 kind=bounded target=AssemblyWindow::try_add bound="2 slots; fragment k (k symbolic in {0,1}) of a 2-fragment packet -> Active -> drop window"
//@harness aw_complete_then_drop     props=C19 kind=bounded target=AssemblyWindow::try_add bound="2 slots; 2-fragment packet, last fragment length in {0,1,1448} -> Some(packet) -> drop packet, clear(0), drop window"
//@harness aw_single_fragment        props=C19 kind=bounded target=AssemblyWindow::try_add bound="2 slots; 1-fragment packet, length symbolic in 0..=1448 -> Some(packet) -> drop"

fn tiny_window() -> AssemblyWindow {
    AssemblyWindow { window: Box::new([WindowEntry::Open, WindowEntry::Open]), alloc: 0, max_alloc: 4 * MAX_FRAGMENT_SIZE }
}

fn dg(fragment_id: u16, fragment_id_last: u16, len: usize) -> frame::Datagram {
    let d = frame::Datagram {
        sequence_id: 5, channel_id: 3, window_parent_lead: 0, channel_parent_lead: 0,
        fragment_id, fragment_id_last, data: vec![0u8; len].into_boxed_slice(),
    };
    assert!(super::super::datagram_is_valid(&d));
    d
}

fn is_active(w: &AssemblyWindow, idx: usize) -> bool { matches!(w.window[idx], WindowEntry::Active(_)) }

#[kani::proof]
fn aw_clear_partial_no_leak() {
    let mut w = tiny_window();
    let r = w.try_add(0, dg(0, 1, MAX_FRAGMENT_SIZE));
    assert!(r.is_none() && is_active(&w, 0) && w.alloc == 2 * MAX_FRAGMENT_SIZE);
    w.clear(0);                 // must release the partially filled FragmentBuffer
    assert!(matches!(w.window[0], WindowEntry::Open) && w.alloc == 0);
    drop(w);
}

#[kani::proof]
fn aw_drop_partial_no_leak() {
    let mut w = tiny_window();
    let k: u16 = kani::any();
    kani::assume(k < 2);
    let len = if k == 1 { 7 } else { MAX_FRAGMENT_SIZE };
    let r = w.try_add(1, dg(k, 1, len));
    assert!(r.is_none() && is_active(&w, 1));
    drop(w);                    // drop glue of Box<[WindowEntry]> -> ActiveEntry -> FragmentBuffer
}

#[kani::proof]
fn aw_complete_then_drop() {
    let mut w = tiny_window();
    let last_len: usize = match kani::any::<u8>() % 3 { 0 => 0, 1 => 1, _ => MAX_FRAGMENT_SIZE };
    assert!(w.try_add(0, dg(0, 1, MAX_FRAGMENT_SIZE)).is_none());
    let p = w.try_add(0, dg(1, 1, last_len));
    match p {
        Some(pkt) => {
            assert!(pkt.data.as_ref().unwrap().len() == MAX_FRAGMENT_SIZE + last_len);
            drop(pkt);          // Box<[u8]> from finalize(): layout at dealloc must equal layout at alloc
        }
        None => assert!(false, "the second fragment completes the packet"),
    }
    assert!(matches!(w.window[0], WindowEntry::Closed(_)));
    w.clear(0);
    assert!(w.alloc == 0);
    drop(w);
}

#[kani::proof]
fn aw_single_fragment() {
    let mut w = tiny_window();
    let len: usize = kani::any();
    kani::assume(len <= MAX_FRAGMENT_SIZE);
    match w.try_add(1, dg(0, 0, len)) {
        Some(pkt) => { assert!(pkt.data.as_ref().unwrap().len() == len); drop(pkt); }
        None => assert!(false),
    }
    assert!(w.alloc == len);
    w.clear(1);
    assert!(w.alloc == 0);
    drop(w);
}
