//@file src/half_connection/pending_packet.rs
//@props C19
//@no-native-replay the default allocator neither checks dealloc layouts nor reports leaks, so a native run of the counterexample passes silently; the counterexample values are still extracted
// C19 on the sender's packet store: PendingPacket owns the payload Box<[u8]> and the ack-flag Box<[u64]>; it lives in an
// Rc<RefCell<..>> referenced weakly by FragmentRef (no cycle).  Life cycle with leak + dealloc-layout checks.
//
//@harness pp_lifecycle          props=C19 kind=bounded target=PendingPacket::new bound="2-fragment payload (1448 + n bytes, n symbolic 1..=1448) -> datagram(0), datagram(1) -> acknowledge_fragment(k) -> drop"
//@harness pp_rc_weak_lifecycle  props=C19 kind=bounded target=FragmentRef::new bound="Rc<RefCell<PendingPacket>> with two FragmentRef (Weak) clones; strong dropped first, then the weaks"

#[kani::proof]
fn pp_lifecycle() {
    let n: usize = kani::any();
    kani::assume(n >= 1 && n <= MAX_FRAGMENT_SIZE);
    let mut p = PendingPacket::new(vec![0u8; MAX_FRAGMENT_SIZE + n].into_boxed_slice(), 5, 9, 0, 0);
    assert!(p.last_fragment_id() == 1 && p.size() == MAX_FRAGMENT_SIZE + n);
    assert!(p.datagram(0).data.len() == MAX_FRAGMENT_SIZE);
    assert!(p.datagram(1).data.len() == n);
    let k: u16 = kani::any();
    kani::assume(k <= 1);
    assert!(!p.fragment_acknowledged(k));
    p.acknowledge_fragment(k);
    assert!(p.fragment_acknowledged(k) && !p.fragment_acknowledged(1 - k));
    drop(p);
}

#[kani::proof]
fn pp_rc_weak_lifecycle() {
    let rc: PendingPacketRc = Rc::new(RefCell::new(PendingPacket::new(vec![0u8; MAX_FRAGMENT_SIZE + 1].into_boxed_slice(), 0, 0, 0, 0)));
    let f0 = FragmentRef::new(&rc, 0);
    let f1 = f0.clone();
    rc.borrow_mut().acknowledge_fragment(1);
    assert!(f1.packet.upgrade().is_some());
    drop(rc);                                   // payload and flags are freed here (strong count 0)
    assert!(f0.packet.upgrade().is_none());
    drop(f0);
    drop(f1);                                   // the Rc allocation itself goes with the last Weak
}
