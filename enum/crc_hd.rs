// CRC Hamming-distance enumerator (level: enumeration, not deduction).
//
// Compiled with plain `rustc -O` against the REAL crc.rs of the tree being checked:
//     UFLOW_CRC_RS=<repo>/src/frame/serial/crc.rs rustc -O --edition 2018 -o <tmp>/crc_hd enum/crc_hd.rs
//     <tmp>/crc_hd <frame_len_bytes>
//
// Claim checked: for a frame of `frame_len` bytes (data = frame_len-4 bytes, then the big-endian CRC-32 of the
// data as computed by the real `compute`), no error pattern of 1..4 flipped bits leaves the frame CRC-valid.
//
// Argument: `compute` is affine over GF(2): compute(a ^ e) == compute(a) ^ compute(e) ^ compute(0^n)
// (proved in Verus: frame::serial::crc::lemma_compute_affine). Hence for a valid frame (d, c) and an error
// pattern (e, f): compute(d ^ e) ^ (c ^ f) == (compute(e) ^ compute(0^n)) ^ f == XOR of the per-bit *columns*
// of the flipped positions, where column(data bit) = compute(unit vector) ^ compute(0^n) and
// column(crc bit k) = 1 << k. The pattern is undetected iff that XOR is zero. So HD >= 5 iff
//   (1) every column is non-zero, (2) columns are pairwise distinct, (3) no XOR of two columns equals a third
//   column, (4) no two distinct pairs have equal XOR.
// Frames shorter than `frame_len` have the columns of the last bits of the long frame (checked below:
// a column depends only on the distance of the bit from the end of the data), so the long frame covers them.
//
// Output (one line, machine readable):
//   OK frame_len=.. columns=.. pairs=.. shift_checked=..
//   FAIL weight=<k> bits=<p1,p2,..> recheck=<true|false>      (bit position = byte_index*8 + bit, LSB = 0)

#[allow(dead_code)]
mod crc {
    include!(env!("UFLOW_CRC_RS"));
}

fn bitpos_of_crc_bit(n_bytes: usize, q: usize, b: usize) -> usize { (n_bytes + q) * 8 + b }

/// flip the given frame bit positions in a valid all-zero-data frame and test whether it is still CRC-valid
fn recheck(frame_len: usize, bits: &[usize]) -> bool {
    let n = frame_len - 4;
    let mut frame = vec![0u8; frame_len];
    let c = crc::compute(&frame[..n]);
    frame[n] = (c >> 24) as u8; frame[n + 1] = (c >> 16) as u8; frame[n + 2] = (c >> 8) as u8; frame[n + 3] = c as u8;
    for &p in bits { frame[p / 8] ^= 1 << (p % 8); }
    let c2 = ((frame[n] as u32) << 24) | ((frame[n + 1] as u32) << 16) | ((frame[n + 2] as u32) << 8) | (frame[n + 3] as u32);
    crc::compute(&frame[..n]) == c2
}

fn fail(frame_len: usize, weight: usize, bits: &mut Vec<usize>) -> ! {
    bits.sort();
    let s: Vec<String> = bits.iter().map(|b| b.to_string()).collect();
    println!("FAIL weight={} bits={} recheck={}", weight, s.join(","), recheck(frame_len, bits));
    std::process::exit(1);
}

fn main() {
    let frame_len: usize = std::env::args().nth(1).expect("usage: crc_hd <frame_len_bytes>").parse().expect("frame length");
    assert!(frame_len >= 5 && frame_len <= 1 << 15, "frame length out of range");
    let n_bytes = frame_len - 4; // data bytes covered by the CRC
    let zero = vec![0u8; n_bytes];
    let c0 = crc::compute(&zero);

    // columns, indexed by frame bit position
    let mut cols: Vec<u32> = Vec::with_capacity(frame_len * 8);
    let mut buf = zero.clone();
    for p in 0..n_bytes {
        for b in 0..8 {
            buf[p] = 1 << b;
            cols.push(crc::compute(&buf) ^ c0);
            buf[p] = 0;
        }
    }
    for q in 0..4 { for b in 0..8 { cols.push(1u32 << ((3 - q) * 8 + b)); debug_assert_eq!(cols.len() - 1, bitpos_of_crc_bit(n_bytes, q, b)); } }
    let n = cols.len();

    // shorter frames: the column of bit b in byte p of an L-byte message equals the column at the same distance from the end of
    // the long message. Checked for EVERY length, EVERY byte position and bit through the real `compute` (16 threads), so
    // the claim for shorter frames does not rest on the fold structure of `extend` (a word-at-a-time rewrite with a wrong
    // tail loop keeps byte 0 right and breaks the last bytes of lengths 2, 3 mod 4).
    let cols_ref = std::sync::Arc::new(cols.clone());
    let nthreads = 16usize;
    let mut handles = Vec::new();
    for t in 0..nthreads {
        let cols_t = cols_ref.clone();
        handles.push(std::thread::spawn(move || -> Result<usize, (usize, usize, usize)> {
            let mut checked = 0usize;
            let mut l = 1 + t;
            while l <= n_bytes {
                let mut m = vec![0u8; l];
                let z = crc::compute(&m);
                for p in 0..l {
                    for b in 0..8 {
                        m[p] = 1 << b;
                        let col = crc::compute(&m) ^ z;
                        m[p] = 0;
                        if col != cols_t[(n_bytes - l + p) * 8 + b] { return Err((l, p, b)); }
                        checked += 1;
                    }
                }
                l += nthreads;
            }
            Ok(checked)
        }));
    }
    let mut shift_checked = 0usize;
    let mut bad: Option<(usize, usize, usize)> = None;
    for h in handles {
        match h.join().expect("worker") { Ok(c) => shift_checked += c, Err(e) => { if bad.map_or(true, |x| e < x) { bad = Some(e); } } }
    }
    if let Some((l, p, b)) = bad {
        println!("FAIL shift-invariance len={} byte={} bit={}", l, p, b);
        std::process::exit(1);
    }

    // weight 1 and 2
    let mut idx: Vec<u32> = (0..n as u32).collect();
    idx.sort_unstable_by_key(|&i| cols[i as usize]);
    if cols[idx[0] as usize] == 0 { fail(frame_len, 1, &mut vec![idx[0] as usize]); }
    for k in 1..n {
        if cols[idx[k] as usize] == cols[idx[k - 1] as usize] { fail(frame_len, 2, &mut vec![idx[k] as usize, idx[k - 1] as usize]); }
    }
    // pair XORs
    let mut pairs: Vec<u32> = Vec::with_capacity(n * (n - 1) / 2);
    for i in 0..n { let ci = cols[i]; for j in (i + 1)..n { pairs.push(ci ^ cols[j]); } }
    let npairs = pairs.len();
    pairs.sort_unstable();
    let find_pairs = |v: u32, skip: Option<(usize, usize)>| -> Option<(usize, usize)> {
        for i in 0..n { for j in (i + 1)..n { if cols[i] ^ cols[j] == v && Some((i, j)) != skip { return Some((i, j)); } } }
        None
    };
    // weight 3: a pair XOR equals a column
    for (k, c) in cols.iter().enumerate() {
        if pairs.binary_search(c).is_ok() {
            let (i, j) = find_pairs(*c, None).unwrap();
            fail(frame_len, 3, &mut vec![i, j, k]);
        }
    }
    // weight 4: two distinct pairs with equal XOR (pairs sharing an index would give equal columns, excluded above)
    for k in 1..npairs {
        if pairs[k] == pairs[k - 1] {
            let p1 = find_pairs(pairs[k], None).unwrap();
            let p2 = find_pairs(pairs[k], Some(p1)).unwrap();
            fail(frame_len, 4, &mut vec![p1.0, p1.1, p2.0, p2.1]);
        }
    }
    println!("OK frame_len={} columns={} pairs={} shift_checked={}", frame_len, n, npairs, shift_checked);
}
