// ---- std contracts for the client unit: connected UDP socket (results are arbitrary) ----
// UdpSocket::send(&self, buf): "Sends data on the socket to the remote address to which it is connected";
// takes &self, result unconstrained.
pub assume_specification [std::net::UdpSocket::send] (_0: &std::net::UdpSocket, _1: &[u8]) -> std::result::Result<usize, std::io::Error>;
// UdpSocket::recv(&self, buf): "On success, returns the number of bytes read" -- never more than the buffer
// holds; the buffer keeps its length, its contents are arbitrary afterwards.
pub assume_specification [std::net::UdpSocket::recv] (_0: &std::net::UdpSocket, _1: &mut [u8]) -> (r: std::result::Result<usize, std::io::Error>)
    ensures
        final(_1)@.len() == old(_1)@.len(),
        r matches Ok(n) ==> n <= old(_1)@.len();
