// ---- std contracts used by the server unit (trusted transcriptions of documented behaviour) ----
pub mod vlib_server {
    use vstd::prelude::*;
    use vstd::multiset::Multiset;
    use std::collections::BinaryHeap;
    use std::cmp::Ordering;
    use vstd::std_specs::cmp::OrdSpec;

    // Accepted, reported assumption (DESIGN section 4 item 5): SocketAddr's Hash/Eq are deterministic and
    // consistent, i.e. it obeys vstd's key model (vstd ships the same axiom for the primitive key types).
    #[verifier::external_body]
    pub broadcast proof fn axiom_socketaddr_key_model()
        ensures #[trigger] vstd::std_specs::hash::obeys_key_model::<std::net::SocketAddr>()
    {}

    /// Abstract content of a BinaryHeap: the multiset of its elements.
    pub uninterp spec fn heap_view<T, A: std::alloc::Allocator>(h: &BinaryHeap<T, A>) -> Multiset<T>;

    /// `x` is a greatest element of `m` under T's `Ord` (as far as T publishes a `cmp_spec`).
    pub open spec fn heap_greatest<T: Ord>(m: Multiset<T>, x: T) -> bool {
        m.contains(x) && (T::obeys_cmp_spec() ==> forall|y: T| #[trigger] m.contains(y) ==> !(y.cmp_spec(&x) is Greater))
    }

    // UdpSocket: the network is external; results are arbitrary except for what the API documents.
    pub assume_specification<A: std::net::ToSocketAddrs> [std::net::UdpSocket::send_to] (_0: &std::net::UdpSocket, _1: &[u8], _2: A) -> std::result::Result<usize, std::io::Error>;
    pub assume_specification<A: std::net::ToSocketAddrs> [std::net::UdpSocket::bind] (_0: A) -> std::result::Result<std::net::UdpSocket, std::io::Error>;
    pub assume_specification [std::net::UdpSocket::set_nonblocking] (_0: &std::net::UdpSocket, _1: bool) -> std::result::Result<(), std::io::Error>;
    /// provenance of a datagram length: `n` is a length `recv_from` returned. Uninterpreted and established by `recv_from` only, so
    /// a contract can demand that the bytes handed to the parser are exactly the datagram that was received (not a length made
    /// up afterwards, which would expose what an earlier datagram left in the buffer).
    pub uninterp spec fn recv_len(n: usize) -> bool;
    pub assume_specification [std::net::UdpSocket::recv_from] (_0: &std::net::UdpSocket, buf: &mut [u8]) -> (r: std::result::Result<(usize, std::net::SocketAddr), std::io::Error>)
        ensures
            final(buf)@.len() == old(buf)@.len(),
            r matches Ok(p) ==> p.0 <= old(buf)@.len() && recv_len(p.0);
    pub assume_specification [std::net::UdpSocket::local_addr] (_0: &std::net::UdpSocket) -> std::result::Result<std::net::SocketAddr, std::io::Error>;

    pub assume_specification<T> [core::mem::drop::<T>] (_0: T);

    pub assume_specification [std::cmp::Ordering::reverse] (o: Ordering) -> (r: Ordering)
        ensures r == (match o { Ordering::Less => Ordering::Greater, Ordering::Equal => Ordering::Equal, Ordering::Greater => Ordering::Less });

    // BinaryHeap as a multiset; peek/pop return a greatest element (std: "Returns the greatest item in the
    // binary heap, or None if it is empty" / "Removes the greatest item from the binary heap and returns it").
    pub assume_specification<T> [BinaryHeap::<T>::new] () -> (h: BinaryHeap<T>)
        ensures heap_view(&h) == Multiset::<T>::empty();
    pub assume_specification<T, A: std::alloc::Allocator> [BinaryHeap::<T, A>::len] (h: &BinaryHeap<T, A>) -> (r: usize)
        ensures r == heap_view(h).len();
    pub assume_specification<T: Ord, A: std::alloc::Allocator> [BinaryHeap::<T, A>::push] (h: &mut BinaryHeap<T, A>, item: T)
        ensures heap_view(final(h)) == heap_view(old(h)).insert(item);
    pub assume_specification<T: Ord, A: std::alloc::Allocator> [BinaryHeap::<T, A>::pop] (h: &mut BinaryHeap<T, A>) -> (r: Option<T>)
        ensures
            heap_view(old(h)).len() == 0 ==> r is None && heap_view(final(h)) == heap_view(old(h)),
            heap_view(old(h)).len() > 0 ==> (r matches Some(x) && heap_greatest(heap_view(old(h)), x)
                && heap_view(final(h)) == heap_view(old(h)).remove(x));
    pub assume_specification<T, A: std::alloc::Allocator> [BinaryHeap::<T, A>::peek] (h: &BinaryHeap<T, A>) -> (r: Option<&T>)
        ensures
            heap_view(h).len() == 0 ==> r is None,
            heap_view(h).len() > 0 ==> (r matches Some(x) && heap_view(h).contains(*x));

    // Vec::retain: "Retains only the elements specified by the predicate ... removes all elements e for which f(&e)
    // returns false. This method operates in place, visiting each element exactly once in the original order, and
    // preserves the order of the retained elements." Transcribed weakly: the result is an order-preserving
    // subsequence of the original (which elements survive is left open); the predicate may be called on every element.
    pub open spec fn is_subsequence<T>(sub: Seq<T>, full: Seq<T>) -> bool {
        exists|idx: Seq<int>| idx.len() == sub.len()
            && (forall|i: int| 0 <= i < idx.len() ==> 0 <= #[trigger] idx[i] < full.len() && sub[i] == full[idx[i]])
            && (forall|i: int, j: int| 0 <= i < j < idx.len() ==> idx[i] < idx[j])
    }
    pub assume_specification<T, A: std::alloc::Allocator, F: FnMut(&T) -> bool> [std::vec::Vec::<T, A>::retain] (v: &mut std::vec::Vec<T, A>, f: F)
        requires
            forall|i: int| 0 <= i < old(v)@.len() ==> #[trigger] f.requires((&old(v)@[i],)),
        ensures
            final(v)@.len() <= old(v)@.len(),
            is_subsequence(final(v)@, old(v)@),
            retain_post(old(v)@, final(v)@, f);

    // the same documented behaviour, with the predicate: the survivors are exactly the elements on which `f` returned true
    // (`f.ensures(.., true)`), every removed element is one on which it returned false. Stated through the closure's
    // own contract, so it says something only for closures that carry an `ensures` (weaver T16).
    pub open spec fn increasing(idx: Seq<int>, n: int) -> bool {
        (forall|i: int| 0 <= i < idx.len() ==> 0 <= #[trigger] idx[i] < n)
        && (forall|i: int, j: int| 0 <= i < j < idx.len() ==> idx[i] < idx[j])
    }
    pub open spec fn retain_post<T, F: FnMut(&T) -> bool>(pre: Seq<T>, post: Seq<T>, f: F) -> bool {
        exists|idx: Seq<int>| increasing(idx, pre.len() as int) && post.len() == idx.len()
            && (forall|k: int| 0 <= k < idx.len() ==> post[k] == pre[#[trigger] idx[k]])
            && (forall|k: int| 0 <= k < idx.len() ==> f.ensures((&pre[#[trigger] idx[k]],), true))
            && (forall|i: int| 0 <= i < pre.len() ==> (#[trigger] idx.contains(i) || f.ensures((&pre[i],), false)))
    }
    /// `x` occurs in `s` (opaque: the two retain lemmas below are broadcast, and an `exists` over indices in their
    /// conclusions would feed their own triggers; reveal it where an index is needed)
    #[verifier::opaque]
    pub open spec fn seq_has<T>(s: Seq<T>, x: T) -> bool { exists|k: int| 0 <= k < s.len() && s[k] == x }
    pub proof fn lemma_seq_has_intro<T>(s: Seq<T>, k: int)
        requires 0 <= k < s.len()
        ensures seq_has(s, s[k])
    { reveal(seq_has); }
    /// an element the predicate cannot reject survives
    pub broadcast proof fn lemma_retain_keeps<T, F: FnMut(&T) -> bool>(pre: Seq<T>, post: Seq<T>, f: F, i: int)
        requires #![trigger retain_post(pre, post, f), pre[i]] retain_post(pre, post, f) && 0 <= i < pre.len() && !f.ensures((&pre[i],), false)
        ensures post.len() > 0, seq_has(post, pre[i])
    {
        let idx = choose|idx: Seq<int>| increasing(idx, pre.len() as int) && post.len() == idx.len()
            && (forall|k: int| 0 <= k < idx.len() ==> post[k] == pre[#[trigger] idx[k]])
            && (forall|k: int| 0 <= k < idx.len() ==> f.ensures((&pre[#[trigger] idx[k]],), true))
            && (forall|i: int| 0 <= i < pre.len() ==> (#[trigger] idx.contains(i) || f.ensures((&pre[i],), false)));
        assert(idx.contains(i));
        let j = choose|j: int| 0 <= j < idx.len() && idx[j] == i;
        assert(post[j] == pre[idx[j]]);
        lemma_seq_has_intro(post, j);
    }
    /// every survivor was there before and satisfied the predicate
    pub broadcast proof fn lemma_retain_sub<T, F: FnMut(&T) -> bool>(pre: Seq<T>, post: Seq<T>, f: F, j: int)
        requires retain_post(pre, post, f) && 0 <= j < post.len()
        ensures #![trigger retain_post(pre, post, f), post[j]] seq_has(pre, post[j]) && f.ensures((&post[j],), true)
    {
        let idx = choose|idx: Seq<int>| increasing(idx, pre.len() as int) && post.len() == idx.len()
            && (forall|k: int| 0 <= k < idx.len() ==> post[k] == pre[#[trigger] idx[k]])
            && (forall|k: int| 0 <= k < idx.len() ==> f.ensures((&pre[#[trigger] idx[k]],), true))
            && (forall|i: int| 0 <= i < pre.len() ==> (#[trigger] idx.contains(i) || f.ensures((&pre[i],), false)));
        assert(post[j] == pre[idx[j]]);
        lemma_seq_has_intro(pre, idx[j]);
    }
}
