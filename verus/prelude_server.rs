// ---- std contracts used by the server unit (trusted transcriptions of documented behaviour) ----
pub mod vlib_server {
    use vstd::prelude::*;
    use vstd::multiset::Multiset;
    use std::collections::BinaryHeap;
    use std::cmp::Ordering;
    use vstd::std_specs::cmp::OrdSpec;

    // Accepted, reported assumption (DESIGN section 4 item 5): SocketAddr's Hash/Eq are deterministic and
    // consistent, i.e. it obeys vstd's key model (vstd ships the same axiom for the primitive key types).
    #[verifier::external_body]
    pub broadcast proof fn axiom_socketaddr_key_model()
        ensures #[trigger] vstd::std_specs::hash::obeys_key_model::<std::net::SocketAddr>()
    {}

    /// Abstract content of a BinaryHeap: the multiset of its elements.
    pub uninterp spec fn heap_view<T, A: std::alloc::Allocator>(h: &BinaryHeap<T, A>) -> Multiset<T>;

    /// `x` is a greatest element of `m` under T's `Ord` (as far as T publishes a `cmp_spec`).
    pub open spec fn heap_greatest<T: Ord>(m: Multiset<T>, x: T) -> bool {
        m.contains(x) && (T::obeys_cmp_spec() ==> forall|y: T| #[trigger] m.contains(y) ==> !(y.cmp_spec(&x) is Greater))
    }

    // UdpSocket: the network is external; results are arbitrary except for what the API documents.
    pub assume_specification<A: std::net::ToSocketAddrs> [std::net::UdpSocket::send_to] (_0: &std::net::UdpSocket, _1: &[u8], _2: A) -> std::result::Result<usize, std::io::Error>;
    pub assume_specification [std::net::UdpSocket::recv_from] (_0: &std::net::UdpSocket, buf: &mut [u8]) -> (r: std::result::Result<(usize, std::net::SocketAddr), std::io::Error>)
        ensures
            final(buf)@.len() == old(buf)@.len(),
            r matches Ok(p) ==> p.0 <= old(buf)@.len();
    pub assume_specification [std::net::UdpSocket::local_addr] (_0: &std::net::UdpSocket) -> std::result::Result<std::net::SocketAddr, std::io::Error>;

    pub assume_specification<T> [core::mem::drop::<T>] (_0: T);

    pub assume_specification [std::cmp::Ordering::reverse] (o: Ordering) -> (r: Ordering)
        ensures r == (match o { Ordering::Less => Ordering::Greater, Ordering::Equal => Ordering::Equal, Ordering::Greater => Ordering::Less });

    // BinaryHeap as a multiset; peek/pop return a greatest element (std: "Returns the greatest item in the
    // binary heap, or None if it is empty" / "Removes the greatest item from the binary heap and returns it").
    pub assume_specification<T> [BinaryHeap::<T>::new] () -> (h: BinaryHeap<T>)
        ensures heap_view(&h) == Multiset::<T>::empty();
    pub assume_specification<T, A: std::alloc::Allocator> [BinaryHeap::<T, A>::len] (h: &BinaryHeap<T, A>) -> (r: usize)
        ensures r == heap_view(h).len();
    pub assume_specification<T: Ord, A: std::alloc::Allocator> [BinaryHeap::<T, A>::push] (h: &mut BinaryHeap<T, A>, item: T)
        ensures heap_view(final(h)) == heap_view(old(h)).insert(item);
    pub assume_specification<T: Ord, A: std::alloc::Allocator> [BinaryHeap::<T, A>::pop] (h: &mut BinaryHeap<T, A>) -> (r: Option<T>)
        ensures
            heap_view(old(h)).len() == 0 ==> r is None && heap_view(final(h)) == heap_view(old(h)),
            heap_view(old(h)).len() > 0 ==> (r matches Some(x) && heap_greatest(heap_view(old(h)), x)
                && heap_view(final(h)) == heap_view(old(h)).remove(x));
    pub assume_specification<T, A: std::alloc::Allocator> [BinaryHeap::<T, A>::peek] (h: &BinaryHeap<T, A>) -> (r: Option<&T>)
        ensures
            heap_view(h).len() == 0 ==> r is None,
            heap_view(h).len() > 0 ==> (r matches Some(x) && heap_view(h).contains(*x));

    // Vec::retain: "Retains only the elements specified by the predicate ... removes all elements e for which f(&e)
    // returns false. This method operates in place, visiting each element exactly once in the original order, and
    // preserves the order of the retained elements." Transcribed weakly: the result is an order-preserving
    // subsequence of the original (which elements survive is left open); the predicate may be called on every element.
    pub open spec fn is_subsequence<T>(sub: Seq<T>, full: Seq<T>) -> bool {
        exists|idx: Seq<int>| idx.len() == sub.len()
            && (forall|i: int| 0 <= i < idx.len() ==> 0 <= #[trigger] idx[i] < full.len() && sub[i] == full[idx[i]])
            && (forall|i: int, j: int| 0 <= i < j < idx.len() ==> idx[i] < idx[j])
    }
    pub assume_specification<T, A: std::alloc::Allocator, F: FnMut(&T) -> bool> [std::vec::Vec::<T, A>::retain] (v: &mut std::vec::Vec<T, A>, f: F)
        requires
            forall|i: int| 0 <= i < old(v)@.len() ==> #[trigger] f.requires((&old(v)@[i],)),
        ensures
            final(v)@.len() <= old(v)@.len(),
            is_subsequence(final(v)@, old(v)@);
}
