pub mod vshim {
    use vstd::prelude::*;
    /// provenance of a value: it is the result of a call of the random source. Uninterpreted, and `random` is the only
    /// function that establishes it, so a contract can demand "this nonce was drawn from the RNG for this very use" and a
    /// value derived from other state (a counter, a bit pool filled earlier, a constant) does not satisfy it.
    pub uninterp spec fn drawn<T>(v: T) -> bool;
    #[verifier::external_body]
    pub fn random<T>() -> (r: T) ensures drawn(r) { unimplemented!() }
}
pub mod vcell {
    // Stand-in for std::cell::RefCell (transformation T7). The contents are HAVOCKED at every borrow:
    // nothing is remembered between two borrows except the cell invariant `CellInv::cell_inv`, which
    // `new` requires and every borrow provides. Assumption (reported): whoever mutates through a RefMut
    // restores the invariant before the guard is dropped (for PendingPacket the only mutator is
    // acknowledge_fragment, which is proved to preserve it; RemoteClient's invariant is `true`).
    use vstd::prelude::*;
    pub trait CellInv: Sized {
        spec fn cell_inv(&self) -> bool;
        /// two-state cell invariant: relation between the value the cell was constructed with (`RefCell::init`)
        /// and the content seen at any later borrow. Default `true` (nothing remembered). An implementor that
        /// overrides it asserts that no mutation through a RefMut ever breaks the relation (for PendingPacket:
        /// DESIGN section 4 item 4, the immutability axiom, guarded syntactically; its only mutator
        /// `acknowledge_fragment` is proved to preserve it).
        open spec fn cell_const(init: &Self, cur: &Self) -> bool { true }
    }
    #[verifier::external_body]
    #[verifier::reject_recursive_types(T)]
    pub struct RefCell<T: CellInv> { inner: std::cell::RefCell<T> }
    #[verifier::external_body]
    #[verifier::reject_recursive_types(T)]
    pub struct RefMut<'a, T: CellInv> { inner: std::cell::RefMut<'a, T> }
    #[verifier::external_body]
    #[verifier::reject_recursive_types(T)]
    pub struct Ref<'a, T: CellInv> { inner: std::cell::Ref<'a, T> }
    impl<T: CellInv> RefCell<T> {
        /// the value this cell was constructed with (a function of the cell's identity; never changes)
        pub uninterp spec fn init(&self) -> T;
        #[verifier::external_body]
        pub fn new(v: T) -> (r: Self) requires v.cell_inv() ensures r.init() == v { RefCell { inner: std::cell::RefCell::new(v) } }
        #[verifier::external_body]
        pub fn borrow_mut(&self) -> (r: RefMut<'_, T>) ensures r.val().cell_inv(), T::cell_const(&self.init(), &r.val()) { RefMut { inner: self.inner.borrow_mut() } }
        #[verifier::external_body]
        pub fn borrow(&self) -> (r: Ref<'_, T>) ensures r.val().cell_inv(), T::cell_const(&self.init(), &r.val()) { Ref { inner: self.inner.borrow() } }
    }
    impl<'a, T: CellInv> RefMut<'a, T> { pub uninterp spec fn val(&self) -> T; }
    impl<'a, T: CellInv> Ref<'a, T> { pub uninterp spec fn val(&self) -> T; }
    impl<'a, T: CellInv> std::ops::Deref for RefMut<'a, T> {
        type Target = T;
        #[verifier::external_body]
        fn deref(&self) -> (r: &T) ensures *r == self.val() { &*self.inner }
    }
    impl<'a, T: CellInv> std::ops::DerefMut for RefMut<'a, T> {
        #[verifier::external_body]
        fn deref_mut(&mut self) -> (r: &mut T) ensures *r == old(self).val(), final(self).val() == *final(r) { &mut *self.inner }
    }
    impl<'a, T: CellInv> std::ops::Deref for Ref<'a, T> {
        type Target = T;
        #[verifier::external_body]
        fn deref(&self) -> (r: &T) ensures *r == self.val() { &*self.inner }
    }
}
#[verifier::external_type_specification] #[verifier::external_body]
pub struct ExUdpSocket(std::net::UdpSocket);
#[verifier::external_type_specification] #[verifier::external_body]
pub struct ExIoError(std::io::Error);
#[verifier::external_type_specification] #[verifier::external_body]
pub struct ExInstant(std::time::Instant);
pub assume_specification [std::time::Instant::now] () -> (r: std::time::Instant);
// `Instant - Instant`: std documents that the result saturates to zero when `b` is later than `a` (no panic since 1.60),
// so the operator has no precondition. vstd routes `a - b` through its generic `Sub::sub` specification whose
// precondition is the uninterpreted `sub_req`; this axiom says it is `true` for Instant (nothing is said about the value).
#[verifier::external_body]
pub broadcast proof fn axiom_instant_sub_total(a: std::time::Instant, b: std::time::Instant)
    ensures #[trigger] vstd::std_specs::ops::SubSpec::sub_req(a, b)
{}
pub assume_specification [std::time::Duration::as_millis] (d: &std::time::Duration) -> (r: u128);
#[verifier::external_type_specification] #[verifier::external_body]
pub struct ExSocketAddr(std::net::SocketAddr);
#[verifier::external_type_specification] #[verifier::external_body]
#[verifier::reject_recursive_types(T)] #[verifier::reject_recursive_types(A)]
pub struct ExWeak<T: ?Sized, A: std::alloc::Allocator>(std::rc::Weak<T, A>);
#[verifier::external_type_specification] #[verifier::external_body]
#[verifier::reject_recursive_types(T)] #[verifier::reject_recursive_types(A)]
pub struct ExBinaryHeap<T, A: std::alloc::Allocator>(std::collections::BinaryHeap<T, A>);
pub assume_specification<T, A: std::alloc::Allocator> [std::collections::VecDeque::<T, A>::get] (v: &std::collections::VecDeque<T, A>, index: usize) -> (r: std::option::Option<&T>)
    ensures index < v@.len() ==> r == Some(&v@[index as int]), index >= v@.len() ==> r is None;
pub assume_specification<T, A: std::alloc::Allocator> [std::collections::VecDeque::<T, A>::get_mut] (v: &mut std::collections::VecDeque<T, A>, index: usize) -> (r: std::option::Option<&mut T>)
    ensures
        index >= old(v)@.len() ==> r is None && final(v)@ == old(v)@,
        index < old(v)@.len() ==> (r matches Some(e) && *e == old(v)@[index as int] && final(v)@ == old(v)@.update(index as int, *final(e)));
pub assume_specification<T: Default> [core::mem::take::<T>] (dest: &mut T) -> (r: T)
    ensures r == *old(dest), T::default.ensures((), *final(dest));
/// the allocation a Weak was created from (Rc::downgrade); upgrade can only ever return that one
pub uninterp spec fn weak_rc<T: ?Sized, A: std::alloc::Allocator>(w: &std::rc::Weak<T, A>) -> std::rc::Rc<T, A>;
pub assume_specification<T: ?Sized, A: std::alloc::Allocator + Clone> [std::rc::Weak::<T, A>::upgrade] (w: &std::rc::Weak<T, A>) -> (r: std::option::Option<std::rc::Rc<T, A>>)
    ensures r matches Some(rc) ==> rc == weak_rc(w);
pub assume_specification<T, A: std::alloc::Allocator> [std::vec::Vec::<T, A>::into_boxed_slice] (v: std::vec::Vec<T, A>) -> (r: std::boxed::Box<[T], A>)
    ensures r@ == v@;
pub assume_specification<T> [core::mem::replace::<T>] (dest: &mut T, src: T) -> (r: T)
    ensures r == *old(dest), *final(dest) == src;
pub mod vcanary {
    use vstd::prelude::*;
    // vacuity guard: this obligation must be reported as failing on every run
    pub proof fn canary_must_fail() { assert(false); }
}
