// ---- std contracts (trusted transcriptions of documented behaviour) ----
pub assume_specification<T, A: std::alloc::Allocator> [std::collections::VecDeque::<T, A>::front] (v: &std::collections::VecDeque<T, A>) -> (r: std::option::Option<&T>)
    ensures v@.len() == 0 ==> r is None, v@.len() > 0 ==> r == Some(&v@[0]);
pub assume_specification<T, A: std::alloc::Allocator> [std::collections::VecDeque::<T, A>::back] (v: &std::collections::VecDeque<T, A>) -> (r: std::option::Option<&T>)
    ensures v@.len() == 0 ==> r is None, v@.len() > 0 ==> r == Some(&v@[v@.len() - 1]);
pub assume_specification<T, A: std::alloc::Allocator> [std::collections::VecDeque::<T, A>::back_mut] (v: &mut std::collections::VecDeque<T, A>) -> (r: std::option::Option<&mut T>)
    ensures
        old(v)@.len() == 0 ==> r is None && final(v)@ == old(v)@,
        old(v)@.len() > 0 ==> (r matches Some(e) && *e == old(v)@[old(v)@.len() - 1] && final(v)@ == old(v)@.update(old(v)@.len() - 1, *final(e)));
pub assume_specification<T, A: std::alloc::Allocator> [std::collections::VecDeque::<T, A>::front_mut] (v: &mut std::collections::VecDeque<T, A>) -> (r: std::option::Option<&mut T>)
    ensures
        old(v)@.len() == 0 ==> r is None && final(v)@ == old(v)@,
        old(v)@.len() > 0 ==> (r matches Some(e) && *e == old(v)@[0] && final(v)@ == old(v)@.update(0, *final(e)));
// `u32::max_value()`: "Returns the largest value that can be represented by this integer type" (deprecated alias of u32::MAX)
pub assume_specification [u32::max_value] () -> (r: u32)
    ensures r == u32::MAX;
