// ---- std contracts used by the half connection flush path (unit H); trusted transcriptions of documented behaviour ----
// VecDeque::is_empty: "Returns true if the deque is empty."
pub assume_specification<T, A: std::alloc::Allocator> [std::collections::VecDeque::<T, A>::is_empty] (v: &std::collections::VecDeque<T, A>) -> (r: bool)
    ensures r == (v@.len() == 0);
