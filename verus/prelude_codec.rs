// ---- std contracts needed by the frame codec unit (trusted transcriptions of documented behaviour) ----
// <[T]>::clone_from_slice: "Copies the elements from src into self. The length of src must be the same as self.
// Panics if the two slices have different lengths."
pub assume_specification<T> [<[T]>::clone_from_slice] (dest: &mut [T], src: &[T])
    where T: std::clone::Clone + std::marker::Destruct,
    requires old(dest)@.len() == src@.len(),
    ensures final(dest)@.len() == src@.len(),
        forall|i: int| 0 <= i < src@.len() ==> vstd::pervasive::cloned::<T>(src@[i], #[trigger] final(dest)@[i]);
// impl<T: Clone> From<&[T]> for Box<[T]>: "Converts a &[T] into a Box<[T]>. This conversion allocates on the heap
// and performs a copy of slice and its contents."
pub assume_specification<'a, T: Clone> [<Box<[T]> as From<&'a [T]>>::from] (s: &[T]) -> (r: Box<[T]>)
    ensures r@.len() == s@.len(),
        forall|i: int| 0 <= i < s@.len() ==> vstd::pervasive::cloned::<T>(s@[i], #[trigger] r@[i]);
