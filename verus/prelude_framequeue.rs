// ---- std contracts used by the frame_queue / reorder_buffer / loss_rate unit ----
// Option::map_or(default, f): documented as "Returns the provided default result (if none), or applies a
// function to the contained value (if any)."
pub assume_specification<T, U, F> [std::option::Option::<T>::map_or] (o: std::option::Option<T>, default: U, f: F) -> (r: U)
    where F: std::ops::FnOnce(T,) -> U + std::marker::Destruct, U: std::marker::Destruct,
    requires o matches Some(x) ==> f.requires((x,)),
    ensures
        o is None ==> r == default,
        o matches Some(x) ==> f.ensures((x,), r);
// <Box<[T]> as Default>::default: "Creates an empty [T] inside a Box" (mem::take leaves this behind)
pub assume_specification<T> [<std::boxed::Box<[T]> as std::default::Default>::default] () -> (r: std::boxed::Box<[T]>)
    ensures r@.len() == 0;
// Rc::downgrade / Weak::clone: the Weak points at the allocation it was made from (see `weak_rc` in prelude.rs)
pub assume_specification<T: ?Sized, A: std::alloc::Allocator + Clone> [std::rc::Rc::<T, A>::downgrade] (this: &std::rc::Rc<T, A>) -> (r: std::rc::Weak<T, A>)
    ensures weak_rc(&r) == *this;
pub assume_specification<T: ?Sized, A: std::alloc::Allocator + Clone> [<std::rc::Weak<T, A> as Clone>::clone] (w: &std::rc::Weak<T, A>) -> (r: std::rc::Weak<T, A>)
    ensures weak_rc(&r) == weak_rc(w);
// ---- linear characterisation of distances in the 32-bit frame id ring: lets proofs `hide(wsub32)` and avoid `%` ----
pub mod vlib_fq {
    use vstd::prelude::*;
    use crate::vlib::wsub32;
    /// wsub32 without `%`: proofs hide the modular definition and work in linear integer arithmetic
    pub broadcast proof fn lemma_wsub32_lin(a: u32, b: u32)
        ensures #[trigger] wsub32(a, b) == (if a >= b { a as int - b as int } else { a as int - b as int + 0x1_0000_0000 })
    {}
    /// the same fact as a predicate, for loop invariants (`broadcast use` does not reach into loop bodies)
    pub open spec fn ring32_lin() -> bool {
        forall|a: u32, b: u32| #[trigger] wsub32(a, b) == (if a >= b { a as int - b as int } else { a as int - b as int + 0x1_0000_0000 })
    }
    pub proof fn lemma_ring32_lin() ensures ring32_lin() {}
}
// `boxed_slice.into_iter()` in edition 2021 resolves to `<&Box<[I]> as IntoIterator>::into_iter`, documented as
// equivalent to `self.iter()`; transcribed from vstd's own contract for `<&[T] as IntoIterator>::into_iter`.
pub assume_specification<'a, I, A: std::alloc::Allocator> [<&'a std::boxed::Box<[I], A> as std::iter::IntoIterator>::into_iter] (s: &'a std::boxed::Box<[I], A>) -> (iter: std::slice::Iter<'a, I>)
    ensures
        vstd::std_specs::iter::IteratorSpec::remaining(&iter) == s@.as_ref(),
        vstd::std_specs::slice::into_iter_elts(iter) == vstd::std_specs::iter::IteratorSpec::remaining(&iter).unref(),
        vstd::std_specs::iter::IteratorSpec::decrease(&iter) is Some;
