// ---- std contracts used by the frame_queue / reorder_buffer / loss_rate unit ----
// Option::map_or(default, f): documented as "Returns the provided default result (if none), or applies a
// function to the contained value (if any)."
pub assume_specification<T, U, F> [std::option::Option::<T>::map_or] (o: std::option::Option<T>, default: U, f: F) -> (r: U)
    where F: std::ops::FnOnce(T,) -> U + std::marker::Destruct, U: std::marker::Destruct,
    requires o matches Some(x) ==> f.requires((x,)),
    ensures
        o is None ==> r == default,
        o matches Some(x) ==> f.ensures((x,), r);
// <Box<[T]> as Default>::default: "Creates an empty [T] inside a Box" (mem::take leaves this behind)
pub assume_specification<T> [<std::boxed::Box<[T]> as std::default::Default>::default] () -> (r: std::boxed::Box<[T]>)
    ensures r@.len() == 0;
// Rc::downgrade / Weak::clone: the Weak points at the allocation it was made from (see `weak_rc` in prelude.rs)
pub assume_specification<T: ?Sized, A: std::alloc::Allocator + Clone> [std::rc::Rc::<T, A>::downgrade] (this: &std::rc::Rc<T, A>) -> (r: std::rc::Weak<T, A>)
    ensures weak_rc(&r) == *this;
pub assume_specification<T: ?Sized, A: std::alloc::Allocator + Clone> [<std::rc::Weak<T, A> as Clone>::clone] (w: &std::rc::Weak<T, A>) -> (r: std::rc::Weak<T, A>)
    ensures weak_rc(&r) == weak_rc(w);
// ---- linear characterisation of distances in the 32-bit frame id ring: lets proofs `hide(wsub32)` and avoid `%` ----
pub mod vlib_fq {
    use vstd::prelude::*;
    use crate::vlib::wsub32;
    /// wsub32 without `%`: proofs hide the modular definition and work in linear integer arithmetic
    pub broadcast proof fn lemma_wsub32_lin(a: u32, b: u32)
        ensures #[trigger] wsub32(a, b) == (if a >= b { a as int - b as int } else { a as int - b as int + 0x1_0000_0000 })
    {}
    /// the same fact as a predicate, for loop invariants (`broadcast use` does not reach into loop bodies)
    pub open spec fn ring32_lin() -> bool {
        forall|a: u32, b: u32| #[trigger] wsub32(a, b) == (if a >= b { a as int - b as int } else { a as int - b as int + 0x1_0000_0000 })
    }
    pub proof fn lemma_ring32_lin() ensures ring32_lin() {}
}
// `boxed_slice.into_iter()` in edition 2021 resolves to `<&Box<[I]> as IntoIterator>::into_iter`, documented as
// equivalent to `self.iter()`; transcribed from vstd's own contract for `<&[T] as IntoIterator>::into_iter`.
pub assume_specification<'a, I, A: std::alloc::Allocator> [<&'a std::boxed::Box<[I], A> as std::iter::IntoIterator>::into_iter] (s: &'a std::boxed::Box<[I], A>) -> (iter: std::slice::Iter<'a, I>)
    ensures
        vstd::std_specs::iter::IteratorSpec::remaining(&iter) == s@.as_ref(),
        vstd::std_specs::slice::into_iter_elts(iter) == vstd::std_specs::iter::IteratorSpec::remaining(&iter).unref(),
        vstd::std_specs::iter::IteratorSpec::decrease(&iter) is Some;
// ---- VecDeque::drain ----
// std: `pub fn drain<R>(&mut self, range: R) -> Drain<'_, T, A> where R: RangeBounds<usize>`
//   "Removes the specified range from the deque in bulk, returning all removed elements as an iterator. If the
//    iterator is dropped before being fully consumed, it drops the remaining removed elements. The returned iterator
//    keeps a mutable borrow on the queue to optimize its implementation.
//    Panics: Panics if the range has `start_bound > end_bound`, or, if the range is bounded on either end and past
//    the length of the deque.
//    Leaking: If the returned iterator goes out of scope without being dropped (due to mem::forget, for example),
//    the deque may have lost and leaked elements arbitrarily, including elements outside the range."
// The range is read through vstd's own model of `RangeBounds` (`vstd::std_specs::range::RangeBoundsSpec`, which vstd
// defines for Range, RangeTo, RangeFrom, RangeFull, RangeInclusive, RangeToInclusive): `drain_lo`/`drain_hi` are the
// half-open index interval `[lo, hi)` that the bounds denote for a deque of length `len` (core::slice::range).
// `Drain` stays opaque (no view, no iterator model): the only thing stated is the value the deque has once the guard's
// mutable borrow has ended, i.e. after the guard was dropped - which does not depend on how much of it was iterated.
// The "Leaking" clause is outside this contract: nothing in the crate forgets a Drain (mem::forget has no Verus spec here).
#[verifier::external_type_specification] #[verifier::external_body]
#[verifier::reject_recursive_types(T)] #[verifier::reject_recursive_types(A)]
pub struct ExVecDequeDrain<'a, T: 'a, A: std::alloc::Allocator>(std::collections::vec_deque::Drain<'a, T, A>);
pub open spec fn drain_lo<R: std::ops::RangeBounds<usize>>(r: R) -> int {
    match vstd::std_specs::range::RangeBoundsSpec::spec_start_bound(&r) {
        std::ops::Bound::Included(s) => *s as int,
        std::ops::Bound::Excluded(s) => *s as int + 1,
        std::ops::Bound::Unbounded => 0,
    }
}
pub open spec fn drain_hi<R: std::ops::RangeBounds<usize>>(r: R, len: int) -> int {
    match vstd::std_specs::range::RangeBoundsSpec::spec_end_bound(&r) {
        std::ops::Bound::Included(e) => *e as int + 1,
        std::ops::Bound::Excluded(e) => *e as int,
        std::ops::Bound::Unbounded => len,
    }
}
pub assume_specification<'a, T, A: std::alloc::Allocator, R: std::ops::RangeBounds<usize>> [std::collections::VecDeque::<T, A>::drain::<R>] (v: &'a mut std::collections::VecDeque<T, A>, range: R) -> (d: std::collections::vec_deque::Drain<'a, T, A>)
    requires
        drain_lo(range) <= drain_hi(range, old(v)@.len() as int) <= old(v)@.len(),
    ensures
        final(v)@ == old(v)@.subrange(0, drain_lo(range)) + old(v)@.subrange(drain_hi(range, old(v)@.len() as int), old(v)@.len() as int);
