// ---- helpers of the packet_sender unit: integer sequence sums, power-of-two window index algebra ----
pub mod vlib_packet_sender {
    use vstd::prelude::*;

    // ------------------------------------------------------------------ sums over Seq<int>
    pub open spec fn seq_sum(s: Seq<int>) -> int
        decreases s.len()
    {
        if s.len() == 0 { 0 } else { seq_sum(s.drop_last()) + s.last() }
    }

    pub proof fn lemma_sum_empty(s: Seq<int>)
        requires s.len() == 0
        ensures seq_sum(s) == 0
    {
    }

    pub proof fn lemma_sum_push(s: Seq<int>, x: int)
        ensures seq_sum(s.push(x)) == seq_sum(s) + x
    {
        assert(s.push(x).drop_last() =~= s);
    }

    pub proof fn lemma_sum_update(s: Seq<int>, i: int, x: int)
        requires 0 <= i < s.len()
        ensures seq_sum(s.update(i, x)) == seq_sum(s) - s[i] + x
        decreases s.len()
    {
        if i == s.len() - 1 {
            assert(s.update(i, x).drop_last() =~= s.drop_last());
        } else {
            lemma_sum_update(s.drop_last(), i, x);
            assert(s.update(i, x).drop_last() =~= s.drop_last().update(i, x));
        }
    }

    pub proof fn lemma_sum_drop_first(s: Seq<int>)
        requires s.len() > 0
        ensures seq_sum(s) == s[0] + seq_sum(s.drop_first())
        decreases s.len()
    {
        if s.len() == 1 {
            lemma_sum_empty(s.drop_last());
            lemma_sum_empty(s.drop_first());
        } else {
            lemma_sum_drop_first(s.drop_last());
            assert(s.drop_first().drop_last() =~= s.drop_last().drop_first());
            assert(s.drop_first().last() == s.last());
            assert(s.drop_last()[0] == s[0]);
        }
    }

    /// a sum of non-negative terms is non-negative and dominates each term
    pub proof fn lemma_sum_nonneg(s: Seq<int>)
        requires forall|i: int| 0 <= i < s.len() ==> s[i] >= 0
        ensures
            seq_sum(s) >= 0,
            forall|i: int| 0 <= i < s.len() ==> s[i] <= seq_sum(s),
        decreases s.len()
    {
        if s.len() > 0 {
            lemma_sum_nonneg(s.drop_last());
            assert forall|i: int| 0 <= i < s.len() implies s[i] <= seq_sum(s) by {
                if i < s.len() - 1 { assert(s.drop_last()[i] == s[i]); }
            }
        }
    }

    pub proof fn lemma_sum_zero(s: Seq<int>)
        requires forall|i: int| 0 <= i < s.len() ==> s[i] == 0
        ensures seq_sum(s) == 0
        decreases s.len()
    {
        if s.len() > 0 {
            lemma_sum_zero(s.drop_last());
        }
    }

    // ------------------------------------------------------------------ power-of-two windows over 20-bit ids
    /// legal packet window sizes: powers of two up to MAX_PACKET_WINDOW_SIZE
    pub open spec fn is_pow2_4096(n: u32) -> bool {
        n == 1 || n == 2 || n == 4 || n == 8 || n == 16 || n == 32 || n == 64 || n == 128 || n == 256
        || n == 512 || n == 1024 || n == 2048 || n == 4096
    }
    /// mask == window_size - 1 for a legal window size
    pub open spec fn is_window_mask(mask: u32) -> bool {
        mask == 0 || mask == 1 || mask == 3 || mask == 7 || mask == 15 || mask == 31 || mask == 63 || mask == 127
        || mask == 255 || mask == 511 || mask == 1023 || mask == 2047 || mask == 4095
    }

    /// distance in slots (modulo the window size) from the slot of id `base` forward to slot `idx`
    pub open spec fn slot_off(idx: int, base: u32, mask: u32) -> int {
        (sub(idx as u32, base) & mask) as int
    }

    /// 20-bit id distance in bit-vector form
    pub proof fn lemma_psub_bv(a: u32, b: u32)
        requires a < 0x100000, b < 0x100000
        ensures crate::vlib::psub(a, b) == (sub(a, b) & 0xFFFFF) as int
    {
        assert(a < 0x100000 && b < 0x100000 && a >= b ==> (sub(a, b) & 0xFFFFF) == a - b) by (bit_vector);
        assert(a < 0x100000 && b < 0x100000 && a < b ==> (sub(a, b) & 0xFFFFF) == a + 0x100000 - b) by (bit_vector);
        if a >= b { assert((a as int - b as int) % 0x100000 == a as int - b as int); }
        else { assert((a as int - b as int) % 0x100000 == a as int - b as int + 0x100000); }
    }

    /// id & mask is an index into a window of size mask + 1
    pub broadcast proof fn lemma_widx_range(id: u32, mask: u32)
        requires is_window_mask(mask)
        ensures #[trigger] (id & mask) <= mask
    {
        assert((id & mask) <= mask) by (bit_vector);
    }

    /// slot offsets are below the window size
    pub broadcast proof fn lemma_slot_off_range(idx: int, base: u32, mask: u32)
        ensures 0 <= #[trigger] slot_off(idx, base, mask) <= mask
    {
        let x = sub(idx as u32, base);
        assert((x & mask) <= mask) by (bit_vector);
    }

    /// the slot of id `id` lies exactly psub(id, base) slots after the slot of `base`, if that is inside the window
    pub broadcast proof fn lemma_slot_off_id(id: u32, base: u32, mask: u32)
        requires is_window_mask(mask), id < 0x100000, base < 0x100000, crate::vlib::psub(id, base) <= mask
        ensures #[trigger] slot_off((id & mask) as int, base, mask) == crate::vlib::psub(id, base)
    {
        lemma_psub_bv(id, base);
        assert(is_window_mask(mask) && (sub(id, base) & 0xFFFFF) <= mask ==>
            (sub(id & mask, base) & mask) == (sub(id, base) & 0xFFFFF)) by (bit_vector);
    }

    /// slot offsets identify slots
    pub broadcast proof fn lemma_slot_off_inj(i1: int, i2: int, base: u32, mask: u32)
        requires is_window_mask(mask), 0 <= i1 <= mask, 0 <= i2 <= mask,
            #[trigger] slot_off(i1, base, mask) == #[trigger] slot_off(i2, base, mask)
        ensures i1 == i2
    {
        let a = i1 as u32; let b = i2 as u32;
        assert(is_window_mask(mask) && a <= mask && b <= mask
            && (sub(a, base) & mask) == (sub(b, base) & mask) ==> a == b) by (bit_vector);
    }

    /// advancing the base by one id decrements every slot offset cyclically
    pub broadcast proof fn lemma_slot_off_step(idx: int, base: u32, base1: u32, mask: u32)
        requires is_window_mask(mask), 0 <= idx <= mask, base < 0x100000, base1 as int == crate::vlib::padd(base, 1)
        ensures
            #[trigger] slot_off(idx, base, mask) >= 1 ==> #[trigger] slot_off(idx, base1, mask) == slot_off(idx, base, mask) - 1,
            slot_off(idx, base, mask) == 0 ==> slot_off(idx, base1, mask) == mask,
    {
        let a = idx as u32;
        assert(base < 0x100000 ==> (add(base, 1) & 0xFFFFF) == (if base == 0xFFFFF { 0u32 } else { (base + 1) as u32 })) by (bit_vector);
        assert(base1 == add(base, 1) & 0xFFFFF) by {
            if base == 0xFFFFF { assert((base as int + 1) % 0x100000 == 0); } else { assert((base as int + 1) % 0x100000 == base as int + 1); }
        }
        assert(is_window_mask(mask) && base < 0x100000 && (sub(a, base) & mask) >= 1 ==>
            (sub(a, add(base, 1) & 0xFFFFF) & mask) == sub(sub(a, base) & mask, 1)) by (bit_vector);
        assert(is_window_mask(mask) && base < 0x100000 && (sub(a, base) & mask) == 0 ==>
            (sub(a, add(base, 1) & 0xFFFFF) & mask) == mask) by (bit_vector);
    }

    pub broadcast group group_window_slots {
        lemma_widx_range, lemma_slot_off_range, lemma_slot_off_id, lemma_slot_off_inj,
    }
}
