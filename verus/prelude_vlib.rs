// ASSUMPTION (reported): 64-bit target. `u32 as usize` conversions of peer-advertised limits plus protocol constants fit.
global size_of usize == 8;
// ---- shared spec helpers and lemmas ----
pub mod vlib {
    use vstd::prelude::*;

    /// (a - b) mod 2^32 : distance from b forward to a in the 32-bit frame id space
    pub open spec fn wsub32(a: u32, b: u32) -> int { (a as int - b as int) % 0x1_0000_0000 }
    /// (a + b) mod 2^32
    pub open spec fn wadd32(a: u32, b: u32) -> int { (a as int + b as int) % 0x1_0000_0000 }

    pub broadcast proof fn lemma_wsub32(a: u32, b: u32)
        ensures #[trigger] a.wrapping_sub(b) as int == wsub32(a, b)
    {
        assert(a.wrapping_sub(b) as int == (a as int - b as int) % 0x1_0000_0000) by {
            if a >= b { assert((a as int - b as int) % 0x1_0000_0000 == a as int - b as int); }
            else { assert((a as int - b as int) % 0x1_0000_0000 == a as int - b as int + 0x1_0000_0000); }
        }
    }
    pub broadcast proof fn lemma_wadd32(a: u32, b: u32)
        ensures #[trigger] a.wrapping_add(b) as int == wadd32(a, b)
    {
        assert(a.wrapping_add(b) as int == (a as int + b as int) % 0x1_0000_0000) by {
            if (a as int) + (b as int) < 0x1_0000_0000int { assert((a as int + b as int) % 0x1_0000_0000 == a as int + b as int); }
            else { assert((a as int + b as int) % 0x1_0000_0000 == a as int + b as int - 0x1_0000_0000); }
        }
    }

    /// 20-bit packet id space
    pub open spec fn psub(a: u32, b: u32) -> int { (a as int - b as int) % 0x100000 }
    pub open spec fn padd(a: u32, b: u32) -> int { (a as int + b as int) % 0x100000 }

    pub broadcast proof fn lemma_mask20(w: u32)
        ensures #[trigger] (w & 0xFFFFF) == w % 0x100000, (w & 0xFFFFF == w) == (w < 0x100000)
    {
        assert(w & 0xFFFFF == w % 0x100000) by (bit_vector);
        assert((w & 0xFFFFF == w) == (w < 0x100000)) by (bit_vector);
    }
}
