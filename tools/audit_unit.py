"""Syntactic audits that guard assumptions the contracts rest on.  They are NOT proof and are reported
as such (`coverage.audits`).  An audit that no longer holds makes the check UNDECIDED (exit 2), never a
violation: the code left the subset the proof talks about and has to be re-reviewed.

  heap            (C19) no unsafe block / forget / leak / raw-pointer round trip in non-test code other than the
                  reviewed `unsafe impl Send/Sync for HalfConnection`; Rc strong edges form a DAG
                  (only PacketSender.window -> PendingPacket and Server.{clients,active_clients,client_events}
                  -> RemoteClient; neither target type owns an Rc; FragmentRef holds a Weak)
  refcell         (C03) ordering / equality / hash / drop impls never borrow a RefCell (the dynamic borrow flag is not modelled)
  pending_packet  (C20, C12, C04 ...) immutability axiom of DESIGN 4.4: inside `impl PendingPacket` the only
                  `&mut self` method is `acknowledge_fragment` and it assigns only `self.ack_flags[..]`
"""
import os, re, sys
HERE = os.path.dirname(os.path.abspath(__file__))
sys.path.insert(0, HERE)
import weave


def sources(repo):
    w = weave.Weaver.__new__(weave.Weaver)
    out = {}
    for d, _, fs in os.walk(os.path.join(repo, 'src')):
        for f in fs:
            if f.endswith('.rs') and f != 'packet_tests.rs':
                p = os.path.join(d, f)
                s = weave.Weaver.blank_tests(w, open(p).read())
                mask = weave.scan_code(s)
                code = ''.join(c if mask[i] or c == '\n' else ' ' for i, c in enumerate(s))
                out[os.path.relpath(p, repo)] = code
    return out


def audit_heap(src):
    bad = []
    pats = [r'\bunsafe\b', r'mem::forget', r'\bforget\(', r'Box::leak', r'ManuallyDrop', r'from_raw', r'into_raw', r'\btransmute\b',
            r'MaybeUninit', r'set_len\(', r'std::alloc', r'\bptr::']
    for rel, code in src.items():
        for ln, line in enumerate(code.split('\n'), 1):
            for p in pats:
                if re.search(p, line):
                    if re.match(r'\s*unsafe impl (Send|Sync) for HalfConnection \{\}', line): continue
                    bad.append(f'{rel}:{ln}: `{line.strip()[:80]}`')
    # Rc ownership: struct fields of type Rc<..>
    allowed_holders = {'WindowEntry', 'Server', 'Event'}
    for rel, code in src.items():
        for m in re.finditer(r'(?m)^\s*(?:pub\s+)?struct (\w+)[^{;]*\{', code):
            mask = weave.scan_code(code)
            try: close = weave.match_brace(code, mask, m.end() - 1)
            except ValueError: continue
            body = code[m.end():close]
            if re.search(r'\bRc<', body) and m.group(1) not in allowed_holders:
                bad.append(f'{rel}: struct {m.group(1)} now owns an Rc (strong-edge DAG must be re-reviewed)')
    return bad


def audit_pending_packet(src):
    bad = []
    code = src.get('src/half_connection/pending_packet.rs')
    if code is None: return ['src/half_connection/pending_packet.rs missing']
    m = re.search(r'impl PendingPacket \{', code)
    if not m: return ['impl PendingPacket not found']
    mask = weave.scan_code(code)
    close = weave.match_brace(code, mask, m.end() - 1)
    body = code[m.end():close]
    muts = re.findall(r'fn (\w+)\s*\(\s*&mut self', body)
    if muts != ['acknowledge_fragment']:
        bad.append(f'&mut self methods of PendingPacket are {muts}, expected only acknowledge_fragment')
    fm = re.search(r'fn acknowledge_fragment[^{]*\{', body)
    if fm:
        fclose = weave.match_brace(body, weave.scan_code(body), fm.end() - 1)
        fbody = body[fm.end():fclose]
        for am in re.finditer(r'self\.(\w+)[^;=]*?(?:\|=|&=|\+=|-=|=)[^=]', fbody):
            if am.group(1) != 'ack_flags':
                bad.append(f'acknowledge_fragment assigns self.{am.group(1)}')
    for rel, c in src.items():
        if rel.endswith('pending_packet.rs'): continue
    return bad


def audit_refcell(src):
    """(C03) the vcell stand-in gives `borrow()` / `borrow_mut()` no precondition: RefCell's dynamic borrow flag is not
    modelled (Verus has no hook for the guard's Drop), so "already borrowed" panics are outside the proof. The code
    pattern that makes this safe is guarded here: the server pushes timer events while it holds a `RefMut` of the client
    (`events.push(Event::new(Rc::clone(&client_rc), ..))`), and BinaryHeap::push / pop call the ordering impls of Event -
    those impls therefore must not touch any cell; and no type's Drop impl borrows a cell either."""
    bad = []
    for rel, code in src.items():
        mask = weave.scan_code(code)
        for m in re.finditer(r'impl\s+(?:\w+::)*(Ord|PartialOrd|PartialEq|Eq|Drop|Hash)\s+for\s+(\w+)[^{]*\{', code):
            try: close = weave.match_brace(code, mask, m.end() - 1)
            except ValueError: continue
            body = code[m.end():close]
            if re.search(r'\.borrow(_mut)?\s*\(', body) or re.search(r'\.try_borrow', body):
                bad.append(f'{rel}: impl {m.group(1)} for {m.group(2)} borrows a RefCell (it runs inside BinaryHeap / HashMap / drop glue while a RefMut may be live)')
    return bad


AUDITS = {'heap': audit_heap, 'pending_packet': audit_pending_packet, 'refcell': audit_refcell}


def run(run, name):
    import check
    src = sources(check.REPO)
    bad = AUDITS[name](src)
    run.extra.setdefault('audits', []).append({'name': name, 'kind': 'syntactic (not proof)', 'ok': not bad, 'findings': bad})
    if bad:
        # deferred: a violation found by a verifier unit takes precedence; otherwise the run is UNDECIDED
        run.deferred_undecided.append(f'audit {name}: the code left the reviewed subset: ' + '; '.join(bad[:5]))


if __name__ == '__main__':
    src = sources(sys.argv[1] if len(sys.argv) > 1 else '/repo')
    for n, f in AUDITS.items():
        print(n, f(src))
