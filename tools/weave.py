#!/usr/bin/env python3
"""WEAVE-V: turn the real crate source into one Verus file.

The woven file is the repository's own token stream plus marked additions:

  /*@+ <clause-id> <props>*/ ... /*@-*/      an insertion (contract clause, ghost code, spec items)
  /*@R{*/new/*@|old@}*/                      a declared replacement (T1..T9, return naming, widening)
  mod x { /*@@file path*/ use vstd::prelude::*; /*@@begin*/ <file text> /*@@endfile*/ }

`erase()` removes every insertion, restores every replacement and folds the file blocks back;
the result must be byte-identical to the repository file with its #[cfg(test)] items and //! lines
blanked.  check.py runs that comparison before Verus is started (mismatch => UNDECIDED).

Overlay format: see DESIGN.md section 2.1 and contracts/*.vspec.
"""
import re, os, sys, json, hashlib

# ----------------------------------------------------------------------------- lexical helpers

def scan_code(s):
    """bool mask: True where the char is code (not in string/char literal/comment)."""
    n = len(s)
    mask = bytearray(b'\x01') * n
    i = 0
    while i < n:
        c = s[i]
        if c == '/' and s.startswith('//', i):
            j = s.find('\n', i)
            j = n if j < 0 else j
            mask[i:j] = b'\x00' * (j - i)
            i = j
        elif c == '/' and s.startswith('/*', i):
            depth = 1; j = i + 2
            while j < n and depth:
                if s.startswith('/*', j): depth += 1; j += 2
                elif s.startswith('*/', j): depth -= 1; j += 2
                else: j += 1
            mask[i:j] = b'\x00' * (j - i)
            i = j
        elif c == '"':
            j = i + 1
            while j < n and s[j] != '"':
                j += 2 if s[j] == '\\' else 1
            j = min(j + 1, n)
            mask[i:j] = b'\x00' * (j - i)
            i = j
        elif c == "'":
            m = re.match(r"'(\\.|\\x[0-9a-fA-F]{2}|[^\\'])'", s[i:i + 6])
            if m:
                mask[i:i + m.end()] = b'\x00' * m.end()
                i += m.end()
            else:
                i += 1
        else:
            i += 1
    return mask


def match_brace(s, mask, open_idx, o='{', c='}'):
    depth = 0
    for i in range(open_idx, len(s)):
        if not mask[i]: continue
        if s[i] == o: depth += 1
        elif s[i] == c:
            depth -= 1
            if depth == 0: return i
    raise ValueError('unbalanced braces')


class Lost(Exception):
    pass


def norm_sha(text):
    """sha256[:16] of the code with comments removed and whitespace collapsed: a pinned body (trusted contract reviewed
    against it) is not disturbed by reformatting or comment edits"""
    mask = scan_code(text)
    out = []
    i = 0; n = len(text)
    while i < n:
        c = text[i]
        if mask[i]:
            out.append(c)
        elif c in '"\'' or (i > 0 and not mask[i - 1] and not text.startswith('//', i) and not text.startswith('/*', i) and out and out[-1] != '\x00'):
            out.append(c)      # string / char literal content is kept verbatim
        else:
            # start of a comment: skip it entirely
            if text.startswith('//', i):
                j = text.find('\n', i); j = n if j < 0 else j
                i = j; out.append(' '); continue
            if text.startswith('/*', i):
                depth = 1; j = i + 2
                while j < n and depth:
                    if text.startswith('/*', j): depth += 1; j += 2
                    elif text.startswith('*/', j): depth -= 1; j += 2
                    else: j += 1
                i = j; out.append(' '); continue
            out.append(c)
        i += 1
    code = re.sub(r'\s+', ' ', ''.join(out)).strip()
    code = re.sub(r'\s*([{}()\[\];,])\s*', r'\1', code)
    return hashlib.sha256(code.encode()).hexdigest()[:16]


def ins(cid, props, text):
    """wrap an insertion. Per-line property tags `[C01,C02] ` at line start become trailing markers."""
    cid = re.sub(r'\s+', '_', cid).replace('*/', '*_/')   # clause ids must be one token (line_map / erase rely on it)
    out = []
    for line in text.split('\n'):
        m = re.match(r'^(\s*)\[((?:C\d+)(?:,C\d+)*)\]\s*(.*)$', line)
        if m:
            out.append(f"{m.group(1)}{m.group(3)} /*@p {m.group(2)}*/")
        else:
            out.append(line)
    return f"/*@+ {cid} {','.join(props) or '-'}*/{chr(10).join(out)}/*@-*/"


def rep(new, old):
    assert '@}*/' not in old and '\n' not in new.replace('\n', '') or True
    return f"/*@R{{*/{new}/*@|{old}@}}*/"


# ----------------------------------------------------------------------------- overlay parsing

def parse_overlay(path):
    ov = {'path': os.path.basename(path), 'file': None, 'props': [], 'structs': [], 'fns': {}, 'items': [],
          'sites': [], 'consts_pub': True}
    cur = None; sect = None; buf = []
    items_props = None

    def flush():
        nonlocal buf, sect, cur
        text = '\n'.join(buf).rstrip(); buf = []
        if sect is None: return
        kind = sect[0]
        if kind == 'items':
            if text.strip(): ov['items'].append((sect[1], text))
        elif kind == 'text':
            if cur is not None: cur['text'].append(text)
        elif cur is not None and text.strip():
            cur.setdefault(kind, []).append((sect[1:], text))

    for raw in open(path).read().split('\n'):
        line = raw
        st = line.strip()
        if st.startswith('#!') or st.startswith('//!'):
            continue
        if st.startswith('@file'):
            ov['file'] = st.split()[1]
        elif st.startswith('@props'):
            ov['props'] = st.split()[1:]
        elif st.startswith('@struct'):
            ov['structs'].append(st.split()[1])
        elif st.startswith('@fn'):
            flush(); sect = None
            parts = st.split()
            cur = {'qual': parts[1], 'disp': 'verify', 'ret': None, 'props': None, 'pin': None, 'cover': None, 'attrs': [], 'implicit': None}
            for p in parts[2:]:
                if p in ('trusted', 'ignored', 'nodecreases', 'verify'): cur['disp'] = p
                elif p.startswith('ret='): cur['ret'] = p[4:]
                elif p.startswith('props='): cur['props'] = p[6:].split(',')
                elif p.startswith('pin='): cur['pin'] = p[4:]
                elif p.startswith('implicit='): cur['implicit'] = p[9:].split(',')
                elif p.startswith('cover='): cur['cover'] = p[6:]
                elif p.startswith('attr='): cur['attrs'].append(p[5:])
                elif p.startswith('rlimit='): cur['attrs'].append(f'verifier::rlimit({p[7:]})')
                else: raise ValueError(f"{path}: bad @fn option {p}")
            if parts[1] in ov['fns']: raise ValueError(f"{path}: duplicate @fn {parts[1]}")
            ov['fns'][parts[1]] = cur
            sect = ('spec',)
        elif st.startswith('@const'):
            flush()
            cur = {'name': st.split()[1]}
            ov.setdefault('consts', {})[st.split()[1]] = cur
            sect = ('cspec',)
        elif st.startswith('@start'):
            flush(); sect = ('start',)
        elif st.startswith('@end'):
            flush(); sect = ('end',)
        elif st.startswith('@loop'):
            flush(); sect = ('loop', int(st.split()[1]))
        elif st.startswith('@before') or st.startswith('@after') or st.startswith('@replace') or st.startswith('@wrap') or st.startswith('@tail') or st.startswith('@each'):
            flush()
            m = re.match(r'@(before|after|wrap|tail|each)\s+"(.*)"(?:\s+#(\d+))?', st)
            sect = (m.group(1), m.group(2), int(m.group(3) or 1))
        elif st.startswith('@hoist'):
            # T17 block hoisting, see weave_file. `@hoist "first" "last" name=vbl_x [pin=..]`; section text: `sig ..`, `call ..`,
            # `tail ..` and the generated function's clauses.
            flush()
            m = re.match(r'@hoist\s+"(.*?)"\s+"(.*?)"\s+name=(\w+)(?:\s+pin=(\w+))?', st)
            sect = ('hoist', m.group(1), m.group(2), m.group(3), m.group(4))
        elif st.startswith('@annot'):
            # T16 closure annotation, see weave_file. Section text: first line `params (<typed params>) -> (<name>: <type>)`,
            # then requires/ensures clauses for the closure (Verus closure syntax).
            flush()
            m = re.match(r'@annot\s+"(.*)"(?:\s+#(\d+))?', st)
            sect = ('annot', m.group(1), int(m.group(2) or 1))
        elif st.startswith('@closure'):
            # T15 closure conversion, see weave_file. Section text: `sig <generics>(params) -> (r: impl FnMut(..) + 'a)`,
            # `call factory(args)`, then the factory's requires/ensures clauses verbatim.
            flush()
            m = re.match(r'@closure\s+"(.*)"\s+name=(\w+)(?:\s+pin=(\w+))?(?:\s+#(\d+))?', st)
            sect = ('closure', m.group(1), m.group(2), int(m.group(4) or 1), m.group(3))
        elif st.startswith('@block') or st.startswith('@decl'):
            flush(); cur = None
            m = re.match(r'@(block|decl)\s+"(.*)"(?:\s+props=(\S+))?', st)
            ent = {'kind': m.group(1), 'needle': m.group(2), 'props': m.group(3).split(',') if m.group(3) else None, 'text': []}
            ov.setdefault('anchors', []).append(ent)
            cur = ent
            sect = ('text',)
        elif st.startswith('@supertrait'):
            flush(); cur = None; sect = None
            m = re.match(r'@supertrait\s+(\w+)\s+(\S+)', st)
            ov.setdefault('supertraits', []).append((m.group(1), m.group(2)))
        elif st.startswith('@items'):
            flush(); cur = None
            parts = st.split()
            pr = None
            for p in parts[1:]:
                if p.startswith('props='): pr = p[6:].split(',')
            sect = ('items', pr)
        elif st.startswith('@sites'):
            sm = re.match(r'@sites\s+"(.*)"(?:\s+props=(\S+))?', st)
            ov['sites'].append((sm.group(1), sm.group(2).split(',') if sm.group(2) else None))
        else:
            buf.append(line)
    flush()
    if not ov['file']: raise ValueError(f"{path}: no @file")
    return ov


# ----------------------------------------------------------------------------- function / loop finder

FN_RE = re.compile(r'(?m)^([ \t]*)(?:/\*@\+ [^\n]*?/\*@-\*/)?((?:pub(?:\s*\([a-z]+\))?\s+)?)fn\s+([A-Za-z0-9_]+)')
IMPL_RE = re.compile(r'(?m)^([ \t]*)impl(?:<[^>{]*>)?\s+(?:([A-Za-z0-9_:<>\'&, ]+?)\s+for\s+)?([A-Za-z0-9_:]+)(?:<[^{]*>)?\s*(?:where[^{]*)?\{')


def index_functions(s, mask=None):
    mask = mask if mask is not None else scan_code(s)
    impls = []
    for m in IMPL_RE.finditer(s):
        if not mask[m.start() + len(m.group(1))]: continue
        open_idx = m.end() - 1
        try:
            close = match_brace(s, mask, open_idx)
        except ValueError:
            continue
        ty = m.group(3).split('::')[-1]
        impls.append((open_idx, close, ty, m.group(2)))
    fns = []
    for m in FN_RE.finditer(s):
        if not mask[m.start(3)]: continue
        i = m.end(); pd = 0
        body_open = None
        while i < len(s):
            if mask[i]:
                c = s[i]
                if c in '([': pd += 1
                elif c in ')]': pd -= 1
                elif c == '{' and pd == 0:
                    body_open = i; break
                elif c == ';' and pd == 0:
                    break
            i += 1
        if body_open is None: continue
        close = match_brace(s, mask, body_open)
        owner = None
        for (o, c, ty, tr) in impls:
            if o < m.start() < c:
                if owner is None or o > owner[0]: owner = (o, c, ty, tr)
        qual = f"{owner[2]}::{m.group(3)}" if owner else m.group(3)
        if owner and owner[3]:
            tr = owner[3].split('<')[0].split('::')[-1].strip()
            tqual = f"{owner[2]}::{tr}::{m.group(3)}"
        else:
            tqual = None
        # start of attributes / doc comments directly above the fn line
        fns.append({'name': m.group(3), 'qual': qual, 'tqual': tqual, 'trait': owner[3] if owner else None,
                    'start': m.start(), 'fn_kw': m.start(3) - 3, 'open': body_open, 'close': close,
                    'indent': m.group(1)})
    # nested fns: drop functions defined inside other function bodies? keep, rare.
    return fns, mask


def find_loops(s, mask, open_idx, close_idx):
    res = []
    for m in re.finditer(r'(?<![A-Za-z0-9_])(while|for|loop)\b', s[open_idx:close_idx]):
        a = open_idx + m.start()
        if not mask[a]: continue
        j = a - 1
        while j > open_idx and (s[j] in ' \t\n' or not mask[j]): j -= 1
        if s[j] not in '{};': continue
        i = a + len(m.group(1)); pd = 0
        while i < close_idx:
            if mask[i]:
                c = s[i]
                if c in '([': pd += 1
                elif c in ')]': pd -= 1
                elif c == '{' and pd == 0: break
            i += 1
        res.append((a, i))
    return res


# ----------------------------------------------------------------------------- the weaver

class Weaver:
    def __init__(self, repo_root, contracts_dir, prelude_path, demote=()):
        self.root = repo_root
        self.src = os.path.join(repo_root, 'src')
        self.transforms = []
        self.lost = []
        self.soft_lost = []   # site anchors that no longer match: the site clause is dropped, the run continues
        self.unclaimed_sites = []   # emission sites no overlay clause guards
        self.fn_info = []     # filled by weave_file: dicts per function
        self.demote = set(demote)   # (file, qual) forced to external_body
        self.overlays = {}
        for fn in sorted(os.listdir(contracts_dir)):
            if fn.endswith('.vspec'):
                ov = parse_overlay(os.path.join(contracts_dir, fn))
                if ov['file'] in self.overlays:
                    o0 = self.overlays[ov['file']]
                    dup = set(o0['fns']) & set(ov['fns'])
                    if dup: raise ValueError(f"{fn}: functions listed twice for {ov['file']}: {dup}")
                    for q, sp in ov['fns'].items():
                        if sp['props'] is None: sp['props'] = ov['props']
                        sp['ovpath'] = ov['path']
                    o0['fns'].update(ov['fns'])
                    o0['structs'] += [x for x in ov['structs'] if x not in o0['structs']]
                    o0['sites'] += [x for x in ov['sites'] if x not in o0['sites']]
                    o0['items'] += [(pr or ov['props'], t) for pr, t in ov['items']]
                    o0.setdefault('anchors', []).extend([dict(a, props=a['props'] or ov['props']) for a in ov.get('anchors', [])])
                    o0.setdefault('consts', {}).update(ov.get('consts') or {})
                    o0.setdefault('supertraits', []).extend(ov.get('supertraits', []))
                    o0['props'] = sorted(set(o0['props']) | set(ov['props']))
                else:
                    for q, sp in ov['fns'].items():
                        if sp['props'] is None: sp['props'] = ov['props']
                        sp['ovpath'] = ov['path']
                    ov['items'] = [(pr or ov['props'], t) for pr, t in ov['items']]
                    for a in ov.get('anchors', []):
                        a['props'] = a['props'] or ov['props']
                    self.overlays[ov['file']] = ov
        if os.path.isdir(prelude_path):
            self.prelude = '\n'.join(open(os.path.join(prelude_path, f)).read()
                                     for f in sorted(os.listdir(prelude_path)) if f.endswith('.rs'))
        else:
            self.prelude = open(prelude_path).read()
        self.originals = {}   # rel -> blanked source text

    # --- blanking of test items and crate docs (line-preserving)
    def blank_tests(self, s):
        mask = scan_code(s)
        out = s
        for m in reversed(list(re.finditer(r'#\[cfg\(test\)\]', s))):
            if not mask[m.start()]: continue
            k = m.end(); depth = 0
            while k < len(s):
                if mask[k]:
                    c = s[k]
                    if c == '{': depth += 1
                    elif c == '}':
                        depth -= 1
                        if depth == 0: k += 1; break
                    elif c == ';' and depth == 0: k += 1; break
                k += 1
            seg = s[m.start():k]
            out = out[:m.start()] + re.sub(r'[^\n]', '', seg) + out[k:]
        return out

    def blank_docs(self, s):
        lines = s.split('\n')
        for i, l in enumerate(lines):
            if l.lstrip().startswith('//!') or l.strip() == '#![warn(missing_docs)]':
                lines[i] = ''
        return '\n'.join(lines)

    def rec(self, tid, rel, s, pos, what):
        self.transforms.append({'id': tid, 'file': rel, 'line': s.count('\n', 0, pos) + 1, 'text': what.strip()[:80]})

    # --- one file: returns woven text (with nested modules inlined)
    def weave_file(self, path, moddir, rel):
        raw = open(path).read()
        s = self.blank_docs(self.blank_tests(raw))
        self.originals[rel] = s
        ov = self.overlays.get(rel) or {'path': None, 'file': rel, 'props': [], 'structs': [], 'fns': {},
                                        'items': [], 'sites': []}
        mask = scan_code(s)
        edits = []   # (a, b, text)  replace s[a:b] by text ; insertions have a == b

        def code(pos): return bool(mask[pos])

        # T1 static -> const ; widen private consts (needed when pub items are defined from them)
        for m in re.finditer(r'(?m)^([ \t]*)(pub(?:\([a-z]+\))?\s+)?(static|const) ([A-Z_0-9]+):', s):
            if not code(m.start(3)): continue
            a, b = m.start(2) if m.group(2) else m.start(3), m.end(3)
            old = s[a:b]
            if m.group(3) == 'static':
                self.rec('T1', rel, s, a, m.group(0))
            new = 'pub const' if not m.group(1) else ((m.group(2) or '') + 'const')
            if new != old: edits.append((a, b, rep(new, old)))
        # T2 bool |=
        for m in re.finditer(r'(?m)^([ \t]*)([a-z_\.]+) \|= ([a-z_\.]+\.rate_limited);', s):
            if not code(m.start(2)): continue
            self.rec('T2', rel, s, m.start(2), m.group(0))
            edits.append((m.start(2), m.end(), rep(f"{m.group(2)} = {m.group(2)} || {m.group(3)};", s[m.start(2):m.end()])))
        # T4 for &x in
        for m in re.finditer(r'(?m)^([ \t]*)for &([a-z_]+) in ([^{\n]+?) \{', s):
            if not code(m.start(2)): continue
            self.rec('T4', rel, s, m.start(), m.group(0))
            a = m.start() + len(m.group(1))
            # two edits so that loop clauses (@loop) can still be inserted in front of the '{'
            edits.append((a, m.end() - 1, rep(f"for {m.group(2)}_ref in {m.group(3)} ", s[a:m.end() - 1])))
            edits.append((m.end(), m.end(), rep(f" let {m.group(2)} = *{m.group(2)}_ref;", '')))
        # T5 rand::random
        for m in re.finditer(r'(?<![A-Za-z_:])rand::random', s):
            if not code(m.start()): continue
            self.rec('T5', rel, s, m.start(), m.group(0))
            edits.append((m.start(), m.end(), rep('crate::vshim::random', m.group(0))))
        # T6 unsafe impl Send/Sync
        for m in re.finditer(r'(?m)^unsafe impl (Send|Sync) for \w+ \{\}', s):
            if not code(m.start()): continue
            self.rec('T6', rel, s, m.start(), m.group(0))
            edits.append((m.start(), m.end(), rep('', m.group(0))))
        # T7 RefCell import
        for m in re.finditer(r'use std::cell::RefCell;', s):
            if not code(m.start()): continue
            self.rec('T7', rel, s, m.start(), m.group(0))
            edits.append((m.start(), m.end(), rep('use crate::vcell::RefCell;', m.group(0))))

        # T13 range index through a Box<[T]> field followed by a method call:
        #   `self.f[a .. b].copy_from_slice(x);` -> `let vslice_f = &mut *self.f; vslice_f[a .. b].copy_from_slice(x);`
        # This spells out the reborrow that auto-deref performs (same MIR). Verus 0.2026.09.13 loses the typing of
        # `IndexMut<Range>` when the receiver still carries the Box decoration (closure_ens axiom is keyed on `&mut [T]`),
        # so the sub-slice would have no known length/content.
        for m in re.finditer(r'(?m)^([ \t]*)self\.([a-z_0-9]+)(\[[^\]\n]+ \.\. [^\]\n]+\]\.copy_from_slice\()', s):
            if not code(m.start(2)): continue
            self.rec('T13', rel, s, m.start(), m.group(0))
            a = m.start() + len(m.group(1)); b = m.start(3)
            edits.append((a, b, rep(f"let vslice_{m.group(2)} = &mut *self.{m.group(2)}; vslice_{m.group(2)}", s[a:b])))

        # T14 compound assignment whose right operand is a `ref` binding of the enclosing match arm:
        #   `Closed(ref n) => { self.alloc -= n; }` -> `self.alloc -= *n;`
        # (`impl SubAssign<&usize> for usize` forwards to the by-value impl; vstd has no spec for the by-reference impl
        # and its spec-extension trait cannot be implemented outside vstd)
        for m in re.finditer(r'(?m)^([ \t]*)([a-z_\.]+) (-=|\+=) ([a-z_]+);', s):
            if not code(m.start(2)): continue
            arm = s.rfind('=>', 0, m.start())
            if arm < 0 or s.count('\n', arm, m.start()) > 1: continue
            if not re.search(r'\(ref ' + re.escape(m.group(4)) + r'\)\s*$', s[:arm].rstrip()[-80:]): continue
            self.rec('T14', rel, s, m.start(), m.group(0))
            edits.append((m.start(4), m.end(4), rep('*' + m.group(4), m.group(4))))

        # visibility widening
        for st in ov['structs']:
            m = re.search(r'(?m)^([ \t]*)((?:pub(?:\s*\([a-z]+\))?\s+)?)(struct|enum) ' + re.escape(st) + r'\b[^{;]*\{', s)
            if not m or not code(m.start(3)):
                self.lost.append(f"{rel}: struct {st}"); continue
            if m.group(2).strip() != 'pub':
                a = m.start(2); b = m.start(3)
                edits.append((a, b, rep('pub ', s[a:b])))
            if m.group(3) == 'struct':
                close = match_brace(s, mask, m.end() - 1)
                for fm in re.finditer(r'(?m)^([ \t]+)((?:pub(?:\s*\([a-z]+\))?\s+)?)([a-z_0-9]+\s*:)', s[m.end():close]):
                    a = m.end() + fm.start(2); b = m.end() + fm.start(3)
                    if not code(b): continue
                    if fm.group(2).strip() != 'pub':
                        edits.append((a, b, rep('pub ', s[a:b])))

        # T10: consts whose initialiser needs a proof: `const X: T = e;` -> `exec const X: T ensures .. { proof e }`
        for cname, cspec in (ov.get('consts') or {}).items():
            m = re.search(r'(?m)^([ \t]*)(?:pub(?:\([a-z]+\))?\s+)?(const) ' + re.escape(cname) + r':[^=;]+?( = )', s)
            if not m or not code(m.start(2)):
                self.lost.append(f"{rel}: const {cname}"); continue
            semi = s.index(';', m.end())
            self.rec('T10', rel, s, m.start(), cname)
            # the T1 edit on the same keyword (widening) is superseded
            edits[:] = [e for e in edits if not (e[0] <= m.start(2) < e[1] or e[0] == m.start(2))]
            a0 = m.start() + len(m.group(1))
            edits.append((a0, m.end(2), rep('pub exec const', s[a0:m.end(2)])))
            clause = '\n'.join(t for _, t in cspec.get('cspec', []))
            edits.append((m.start(3), m.end(3), rep(' ', ' = ') + ins(f"{ov['path']}:const {cname}", ov['props'], clause + ' ')))
            edits.append((semi, semi + 1, rep(' }', ';')))

        # file-level text anchors: @block (insert after the '{' of the block whose header contains the needle),
        # @decl (insert before the ';' of a body-less declaration containing the needle)
        for n, a in enumerate(ov.get('anchors', [])):
            idxs = [m.start() for m in re.finditer(re.escape(a['needle']), s) if code(m.start())]
            if len(idxs) != 1:
                self.lost.append(f"{rel}: @{a['kind']} \"{a['needle']}\" ({len(idxs)} matches)"); continue
            i = idxs[0] + len(a['needle']); pd = 0
            want = '{' if a['kind'] == 'block' else ';'
            if a['needle'].endswith(want): i -= 1   # needle may include the terminator to make it unique
            while i < len(s):
                if mask[i]:
                    c = s[i]
                    if c in '([': pd += 1
                    elif c in ')]': pd -= 1
                    elif pd == 0 and c in '{;': break
                i += 1
            if i >= len(s) or s[i] != want:
                self.lost.append(f"{rel}: @{a['kind']} \"{a['needle']}\" (no '{want}')"); continue
            pos = i + 1 if a['kind'] == 'block' else i
            edits.append((pos, pos, ins(f"{ov['path']}:{a['kind']}[{a['needle'][:40]}]", a['props'], '\n' + '\n'.join(a['text']) + '\n')))
        for tname, bound in ov.get('supertraits', []):
            m = re.search(r'(?m)^([ \t]*)(pub\s+)?trait ' + re.escape(tname) + r'\b', s)
            if not m or not code(m.start() + len(m.group(1))):
                self.lost.append(f"{rel}: trait {tname}"); continue
            self.rec('T12', rel, s, m.start(), m.group(0) + ': ' + bound)
            edits.append((m.end(), m.end(), rep(': ' + bound, '')))

        fns, _ = index_functions(s, mask)
        factories = []       # T15: generated closure factory fns (appended to the module)
        claimed = set()      # line starts that carry a @before site clause
        verified_spans = []  # (open, close) of function bodies under disposition verify
        byq = {}
        for f in fns:
            byq.setdefault(f['qual'], []).append(f)
            if f['tqual']: byq.setdefault(f['tqual'], []).append(f)
        fprops_default = ov['props']
        listed = {}
        for qual, spec in ov['fns'].items():
            cands = byq.get(qual, [])
            if len(cands) != 1:
                self.lost.append(f"{rel}: fn {qual} ({len(cands)} matches)"); continue
            listed[id(cands[0])] = (qual, spec)

        for f in fns:
            sig = s[f['start']:f['open']]
            body = s[f['open']:f['close'] + 1]
            qual, spec = listed.get(id(f), (f['qual'], None))
            ind = f['indent']
            props = (spec and spec['props']) or fprops_default
            disp = spec['disp'] if spec else 'default'
            auto = None
            body_f = body
            if spec and spec.get('closure'):
                # closure literals that T15 moves out into an external_body factory do not count for the f64 rule
                for (needle, _name, nth, _pin), _text in spec['closure']:
                    idxs = [m.end() for m in re.finditer(re.escape(needle), body) if code(f['open'] + m.start())]
                    if nth <= len(idxs):
                        a = idxs[nth - 1]
                        while a < len(body) and body[a] in ' \t\n': a += 1
                        q = body.find('|', a + 1)
                        k = body.find('{', q + 1) if q > 0 else -1
                        if body[a:a + 1] == '|' and k > 0:
                            e = match_brace(s, mask, f['open'] + k) + 1 - f['open']
                            body_f = body_f.replace(body[a:e], '')
            # `.map(|_| X)` closures that the overlay annotates (T16: `|_i: usize| -> (e: T) ensures .. { X }`) are proved, not T9
            annot_claimed = set()
            if spec and spec.get('annot'):
                for (needle, nth), _text in spec['annot']:
                    idxs = [m.end() for m in re.finditer(re.escape(needle), body) if code(f['open'] + m.start())]
                    if nth <= len(idxs):
                        a = idxs[nth - 1]
                        while a < len(body) and body[a] in ' \t\n': a += 1
                        annot_claimed.add(a)
            t9_sites = [m.start() for m in re.finditer(r'\.map\(\|_\|', body) if code(f['open'] + m.start())]
            t9_open = [x for x in t9_sites if x + len('.map(') not in annot_claimed]
            if re.search(r'\bf64\b', sig) or re.search(r'\bf64\b', body_f): auto = 'T8'
            elif t9_open: auto = 'T9'
            if auto and disp in ('verify', 'default', 'nodecreases'):
                self.rec(auto, rel, s, f['start'], qual)
                if auto == 'T9' and spec and spec.get('annot') and not spec['pin']:
                    # the overlay proves this body through @annot'ed closures and therefore carries no pin; a `.map(|_|`
                    # closure that no @annot claims (a changed range expression moved the needle, a new closure was added)
                    # would silently turn the function into an unpinned trusted contract. Soft: its properties are UNDECIDED.
                    self.soft_lost.append({'desc': f"{rel}: fn {qual}: a `.map(|_|` closure is claimed by no @annot (needle lost or new closure): "
                                                   f"the body would be external_body (T9) under an unpinned, unreviewed contract",
                                           'props': sorted(set(props))})
                disp = 'trusted' if spec else 'default'
            if (rel, qual) in self.demote and disp != 'ignored':
                disp = 'trusted' if spec else 'default'
            if 'impl Iterator' in sig or 'ToSocketAddrs' in sig:
                if disp == 'default': disp = 'ignored'
            attrs = []
            if disp in ('trusted', 'default'): attrs.append('verifier::external_body')
            elif disp == 'ignored': attrs.append('verifier::external')
            elif disp == 'nodecreases': attrs.append('verifier::exec_allows_no_decreases_clause')
            if spec: attrs += spec['attrs']
            cid0 = f"{(spec and spec.get('ovpath')) or ov['path'] or '-'}:{qual}"
            if attrs:
                txt = ''.join(f"#[{a}] " for a in attrs)
                edits.append((f['start'] + len(ind), f['start'] + len(ind), ins(cid0 + ':attr', [], txt)))
            # T9: closures with `_` params are rejected even in external_body bodies
            for x in t9_open:
                p = f['open'] + x
                edits.append((p, p + len('.map(|_|'), rep('.map(|_i|', '.map(|_|')))
            # T11 `x: &mut impl Trait` -> named type parameter (same meaning in Rust; lets contracts name the type)
            if re.search(r':\s*&mut impl [A-Za-z_:]+', sig) and not re.search(r'fn\s+\w+\s*<', sig):
                names = []
                for k, m in enumerate(re.finditer(r'(:\s*&mut )impl ([A-Za-z_:]+)', sig)):
                    nm = 'V' + m.group(2).split('::')[-1] + (str(k) if k else '')
                    names.append((nm, m.group(2)))
                    a = f['start'] + m.start() + len(m.group(1))
                    edits.append((a, f['start'] + m.end(), rep(nm, s[a:f['start'] + m.end()])))
                mm = re.search(r'fn\s+\w+', sig)
                a = f['start'] + mm.end()
                edits.append((a, a, rep('<' + ', '.join(f"{n}: {t}" for n, t in names) + '>', '')))
                self.rec('T11', rel, s, f['start'], qual)
            # T3 mut self
            m3 = re.search(r'\(\s*(mut self)\s*[,)]', sig)
            if m3:
                self.rec('T3', rel, s, f['start'], qual)
                a = f['start'] + m3.start(1)
                edits.append((a, a + len('mut self'), rep('self', 'mut self')))
                edits.append((f['open'] + 1, f['open'] + 1, ins(cid0 + ':T3', [], ' let mut this = self;')))
                for m in re.finditer(r'(?<![A-Za-z0-9_])self(?=[\.\)])', body):
                    p = f['open'] + m.start()
                    if code(p): edits.append((p, p + 4, rep('this', 'self')))
            info = {'file': rel, 'qual': qual, 'disp': disp, 'props': props, 'listed': spec is not None,
                    'line': s.count('\n', 0, f['start']) + 1, 'end_line': s.count('\n', 0, f['close']) + 1,
                    'body_sha': norm_sha(body),
                    'pin': spec['pin'] if spec else None, 'cover': spec['cover'] if spec else None,
                    'auto': auto, 'trait': f['trait'], 'implicit': spec['implicit'] if spec else None}
            self.fn_info.append(info)
            if not spec: continue
            tags = set()
            for kind, lst in spec.items():
                if isinstance(lst, list) and kind not in ('props', 'attrs', 'implicit'):
                    for item in lst:
                        if isinstance(item, tuple):
                            for tm in re.finditer(r'(?m)^\s*\[((?:C\d+)(?:,C\d+)*)\]', item[1]):
                                tags |= set(tm.group(1).split(','))
                            for tm in re.finditer(r'/\*@p ((?:C\d+)(?:,C\d+)*)\*/', item[1]):
                                tags |= set(tm.group(1).split(','))
            info['props'] = sorted(set(props) | tags)
            if spec['pin'] and spec['pin'] != info['body_sha']:
                # a trusted function whose reviewed body changed: its contract is a stale assumption. Soft: only the
                # properties that rely on this function become UNDECIDED (unless something fails for them anyway)
                self.soft_lost.append({'desc': f"{rel}: fn {qual}: pinned body changed ({info['body_sha']} != {spec['pin']}); its trusted contract was reviewed against another body",
                                       'props': info['props']})
            # return naming
            if spec['ret']:
                m = re.search(r'->\s*([^{]+?)\s*(where\b[^{]*)?$', sig)
                if m:
                    a = f['start'] + m.start(1); b = f['start'] + m.end(1)
                    edits.append((a, b, rep(f"({spec['ret']}: {m.group(1).strip()})", s[a:b])))
                else:
                    self.lost.append(f"{rel}: fn {qual}: ret= on a function without return type")
            # function-level clauses: before body '{' (but before a where clause? Verus wants after where)
            for n, (_, clause) in enumerate(spec.get('spec', [])):
                edits.append((f['open'], f['open'], ins(f"{cid0}:spec#{n+1}", props, '\n' + clause + '\n' + ind)))
            if disp in ('verify', 'nodecreases'):
                verified_spans.append((f['open'], f['close']))
                for n, (_, clause) in enumerate(spec.get('start', [])):
                    edits.append((f['open'] + 1, f['open'] + 1, ins(f"{cid0}:start#{n+1}", props, '\n' + clause)))
                for n, (_, clause) in enumerate(spec.get('end', [])):
                    edits.append((f['close'], f['close'], ins(f"{cid0}:end#{n+1}", props, clause + '\n' + ind)))
                loops = find_loops(s, mask, f['open'], f['close'])
                for (k,), clause in spec.get('loop', []):
                    if k > len(loops):
                        # the loop is gone: its invariant cannot be placed. Soft: the function-level contract decides.
                        tg = set(props)
                        for tm in re.finditer(r'(?m)^\s*\[((?:C\d+)(?:,C\d+)*)\]|/\*@p ((?:C\d+)(?:,C\d+)*)\*/', clause):
                            tg |= set((tm.group(1) or tm.group(2)).split(','))
                        self.soft_lost.append({'desc': f"{rel}: loop {k} of {qual}", 'props': sorted(tg)}); continue
                    pos = loops[k - 1][1]
                    edits.append((pos, pos, ins(f"{cid0}:loop{k}", props, '\n' + clause + '\n' + ind + '    ')))
                # @wrap "expr" #n : `expr` -> `{ <clause> expr }` (two insertions around the untouched expression). Lets a
                # ghost block sit in front of an expression that is not in statement position (`Err(_) => return Err(()),`).
                for (needle, nth), clause in spec.get('wrap', []):
                    idxs = [m.start() for m in re.finditer(re.escape(needle), body) if code(f['open'] + m.start())]
                    if nth > len(idxs):
                        tg = set(props)
                        for tm in re.finditer(r'(?m)^\s*\[((?:C\d+)(?:,C\d+)*)\]|/\*@p ((?:C\d+)(?:,C\d+)*)\*/', clause):
                            tg |= set((tm.group(1) or tm.group(2)).split(','))
                        self.soft_lost.append({'desc': f"{rel}: wrap \"{needle}\" #{nth} in {qual}", 'props': sorted(tg)}); continue
                    p = f['open'] + idxs[nth - 1]
                    nid = re.sub(r'\s+', '_', needle)
                    edits.append((p, p, ins(f"{cid0}:wrap[{nid}#{nth}]", props, '{ ' + clause.strip() + ' ')))
                    edits.append((p + len(needle), p + len(needle), ins(f"{cid0}:wrapend[{nid}#{nth}]", [], ' }')))
                # @tail "Self {" #n : the brace-delimited tail expression `Self { .. }` that starts at the needle (the needle must end
                # with its opening brace) becomes `let vtail = Self { .. }; <clause> vtail` - two insertions around the untouched
                # expression (binding a value to a fresh immutable local and returning it is the identity). Lets a proof block name
                # the value a constructor returns (`vtail`).
                for (needle, nth), clause in spec.get('tail', []):
                    idxs = [m.start() for m in re.finditer(re.escape(needle), body) if code(f['open'] + m.start())]
                    tg = set(props)
                    for tm in re.finditer(r'(?m)^\s*\[((?:C\d+)(?:,C\d+)*)\]|/\*@p ((?:C\d+)(?:,C\d+)*)\*/', clause):
                        tg |= set((tm.group(1) or tm.group(2)).split(','))
                    if nth > len(idxs) or not needle.rstrip().endswith('{'):
                        self.soft_lost.append({'desc': f"{rel}: tail \"{needle}\" #{nth} in {qual}", 'props': sorted(tg)}); continue
                    p = f['open'] + idxs[nth - 1]
                    ob = p + len(needle.rstrip()) - 1
                    try: cb = match_brace(s, mask, ob)
                    except ValueError:
                        self.soft_lost.append({'desc': f"{rel}: tail \"{needle}\" #{nth} in {qual}", 'props': sorted(tg)}); continue
                    nid = re.sub(r'\s+', '_', needle)
                    edits.append((p, p, ins(f"{cid0}:tail[{nid}#{nth}]", [], 'let vtail = ')))
                    edits.append((cb + 1, cb + 1, ins(f"{cid0}:tailend[{nid}#{nth}]", props, ';\n' + ind + '        ' + clause.strip() + '\n' + ind + '        vtail')))
                # T15 closure conversion. `@closure "let emit_cb = " name=vcl_x`: the closure expression that follows the
                # needle, `|params| { body }`, is replaced by the call given in the directive (declared replacement whose old
                # text is the closure, so erasure restores it byte for byte) and the closure text becomes, verbatim and with
                # `move` in front, the body of a generated `external_body` factory fn with the directive's signature and
                # contract. Same program: the closure captured its free variables by unique borrow / copy, the factory
                # receives exactly those as `&'a mut` / by-value parameters and moves them into the closure. Verus sees
                # an opaque `impl FnMut` value with the factory's `ensures`; ONLY the closure body stays unverified.
                for (needle, name, nth, cpin), text in spec.get('closure', []):
                    idxs = [m.end() for m in re.finditer(re.escape(needle), body) if code(f['open'] + m.start())]
                    if nth > len(idxs):
                        self.lost.append(f"{rel}: closure \"{needle}\" #{nth} in {qual}"); continue
                    p = f['open'] + idxs[nth - 1]
                    while p < f['close'] and s[p] in ' \t\n': p += 1
                    lines = [l for l in text.split('\n')]
                    sig = next((l.strip()[4:].strip() for l in lines if l.strip().startswith('sig ')), None)
                    call = next((l.strip()[5:].strip() for l in lines if l.strip().startswith('call ')), None)
                    clauses = '\n'.join(l for l in lines if not l.strip().startswith('sig ') and not l.strip().startswith('call '))
                    q = p
                    ok = s[p] == '|'
                    if ok:
                        q = s.find('|', p + 1)
                        k = q + 1
                        while k < f['close'] and s[k] in ' \t\n': k += 1
                        ok = q > 0 and s[k] == '{'
                    if not ok or not sig or not call:
                        self.lost.append(f"{rel}: closure \"{needle}\" #{nth} in {qual}: not a `|..| {{ .. }}` closure / incomplete directive"); continue
                    cend = match_brace(s, mask, k) + 1
                    ctext = s[p:cend]
                    if '/*' in ctext or '*/' in ctext:
                        self.lost.append(f"{rel}: closure \"{needle}\" in {qual}: block comment inside the closure text"); continue
                    csha = norm_sha(ctext)
                    # the closure body is the one piece of the function no engine sees: the assumption about its effect
                    # (closure-glue) was reviewed against exactly this text
                    if cpin and cpin != csha:
                        self.soft_lost.append({'desc': f"{rel}: fn {qual}: pinned closure text changed ({csha} != {cpin}); the closure-glue assumption was reviewed against another text",
                                               'props': sorted(set(info['props'] or props))})
                    self.rec("T15", rel, s, p, f"closure {name} sha={csha} in {qual}")
                    edits.append((p, cend, rep(call, ctext)))
                    # the factory is a free function: `Self::X` inside the closure text is spelled with the impl's type name
                    # there (same item; the factory body is external_body - compiled, never verified - and the pin is taken
                    # from the original text)
                    ftext = re.sub(r'\bSelf::', qual.split('::')[0] + '::', ctext) if '::' in qual else ctext
                    factories.append(ins(f"{cid0}:T15[{name}]", props,
                                         f"\n#[verifier::external_body]\nfn {name}{sig}\n{clauses}\n{{\n    move {ftext}\n}}\n"))
                # T17 block hoisting. `@hoist "first" "last" name=vbl_x`: the run of whole statements from the line containing
                # `first` to the end of the statement containing `last` is replaced by the `call` text (declared replacement,
                # erasure restores the statements) and becomes, verbatim, the body of a generated `external_body` function
                # with the directive's signature, followed by the `tail` expression. Same program: the statements run in
                # the same order with the same operands (what they read is passed in, what later code uses is returned;
                # a `?` inside them returns the same error through the `?` of the call). ONLY those statements stay
                # unverified; their text is pinned.
                for (first, last, name, hpin), text in spec.get('hoist', []):
                    i0 = next((m.start() for m in re.finditer(re.escape(first), body) if code(f['open'] + m.start())), None)
                    i1 = next((m.start() for m in re.finditer(re.escape(last), body) if code(f['open'] + m.start())), None)
                    lines = text.split('\n')
                    hsig = next((l.strip()[4:].strip() for l in lines if l.strip().startswith('sig ')), None)
                    hcall = next((l.strip()[5:].strip() for l in lines if l.strip().startswith('call ')), None)
                    htail = next((l.strip()[5:].strip() for l in lines if l.strip().startswith('tail ')), None)
                    hclauses = '\n'.join(l for l in lines if not re.match(r'\s*(sig|call|tail) ', l))
                    if i0 is None or i1 is None or i1 < i0 or not (hsig and hcall and htail):
                        self.lost.append(f"{rel}: hoist \"{first}\" .. \"{last}\" in {qual}"); continue
                    a = s.rfind('\n', 0, f['open'] + i0) + 1
                    i = f['open'] + i1; d = 0
                    while i < f['close']:
                        if mask[i]:
                            if s[i] in '([{': d += 1
                            elif s[i] in ')]}': d -= 1
                            elif s[i] == ';' and d == 0: break
                        i += 1
                    b = i + 1
                    btext = s[a:b]
                    if '/*' in btext:
                        self.lost.append(f"{rel}: hoist in {qual}: block comment inside the hoisted statements"); continue
                    bsha = norm_sha(btext)
                    if hpin and hpin != bsha:
                        self.soft_lost.append({'desc': f"{rel}: fn {qual}: pinned hoisted statements changed ({bsha} != {hpin}); their trusted contract was reviewed against another text",
                                               'props': sorted(set(info['props'] or props))})
                    self.rec("T17", rel, s, a, f"hoisted statements {name} sha={bsha} in {qual}")
                    ind0 = re.match(r'[ \t]*', s[a:]).group(0)
                    edits.append((a, b, rep(ind0 + hcall, btext)))
                    factories.append(ins(f"{cid0}:T17[{name}]", props,
                                         f"\n#[verifier::external_body]\nfn {name}{hsig}\n{hclauses}\n{{\n{btext}\n{ind0}{htail}\n}}\n"))
                # T16 closure annotation. `@annot "needle"`: the closure literal `|params| EXPR` that follows the needle (an
                # argument of a call, EXPR not a block) becomes `|typed params| -> (r: T) requires .. ensures .. { EXPR }`:
                # same closure (parameter types and the return type were inferred before, are written out now; braces
                # around an expression do not change it), but now with a contract Verus proves against EXPR and uses at
                # the callee (`f.requires` / `f.ensures`). Erasure restores `|params| EXPR`.
                for (needle, nth), text in spec.get('annot', []):
                    idxs = [m.end() for m in re.finditer(re.escape(needle), body) if code(f['open'] + m.start())]
                    tg = set(props)
                    for tm in re.finditer(r'(?m)^\s*\[((?:C\d+)(?:,C\d+)*)\]', text): tg |= set(tm.group(1).split(','))
                    if nth > len(idxs):
                        self.soft_lost.append({'desc': f"{rel}: annotated closure \"{needle}\" #{nth} in {qual}", 'props': sorted(tg)}); continue
                    p = f['open'] + idxs[nth - 1]
                    while p < f['close'] and s[p] in ' \t\n': p += 1
                    q = s.find('|', p + 1) if s[p] == '|' else -1
                    lines = text.split('\n')
                    params = next((l.strip()[7:].strip() for l in lines if l.strip().startswith('params ')), None)
                    # `form lowered`: the closure sits inside a std macro (debug_assert!), whose argument the verus! macro does
                    # not rewrite, so the contract is emitted the way verus! itself lowers a closure contract:
                    # `|p: T| -> U { ::verus_builtin::requires([..]); ::verus_builtin::ensures(|r: U| [..]); EXPR }`.
                    # The clause expressions are then plain Rust (no `==>`, `@`, `forall`, `as int`).
                    lowered = any(l.strip() == 'form lowered' for l in lines)
                    clauses = '\n'.join(l for l in lines if not l.strip().startswith('params ') and l.strip() != 'form lowered')
                    if q < 0 or not params:
                        self.soft_lost.append({'desc': f"{rel}: annotated closure \"{needle}\" #{nth} in {qual}: not a `|..| expr` closure", 'props': sorted(tg)}); continue
                    k = q + 1
                    while s[k] in ' \t\n': k += 1
                    if s[k] == '{':
                        self.soft_lost.append({'desc': f"{rel}: annotated closure \"{needle}\" #{nth} in {qual}: block body", 'props': sorted(tg)}); continue
                    i = k; d = 0
                    while i < f['close']:
                        if mask[i]:
                            if s[i] in '([{': d += 1
                            elif s[i] in ')]}':
                                if d == 0: break
                                d -= 1
                            elif s[i] in ',;' and d == 0: break
                        i += 1
                    e = i
                    while s[e - 1] in ' \t\n': e -= 1
                    mparams = re.match(r'\((.*)\)\s*->\s*(\(.*\))\s*$', params)
                    if not mparams:
                        self.lost.append(f"{rel}: @annot \"{needle}\" in {qual}: bad params line"); continue
                    self.rec("T16", rel, s, p, f"closure annotation in {qual}")
                    nid = re.sub(r'\s+', '_', needle)
                    if lowered:
                        mret = re.match(r'\(\s*(\w+)\s*:\s*(.*)\)$', mparams.group(2))
                        mcl = re.match(r'\s*(?:requires\b(?P<req>.*?))?(?:ensures\b(?P<ens>.*))?$', re.sub(r'(?m)^\s*\[(?:C\d+)(?:,C\d+)*\]', '', clauses), re.S)
                        if not mret or not mcl:
                            self.lost.append(f"{rel}: @annot \"{needle}\" in {qual}: bad lowered form"); continue
                        low = ''
                        if (mcl.group('req') or '').strip(): low += f"::verus_builtin::requires([{' '.join(mcl.group('req').split())}]); "
                        if (mcl.group('ens') or '').strip(): low += f"::verus_builtin::ensures(|{mret.group(1)}: {mret.group(2)}| [{' '.join(mcl.group('ens').split())}]); "
                        edits.append((p, q + 1, rep(f"|{mparams.group(1)}| -> {mret.group(2)}", s[p:q + 1])))
                        edits.append((k, k, ins(f"{cid0}:annot[{nid}#{nth}]", sorted(tg), '{ ' + low)))
                        edits.append((e, e, ins(f"{cid0}:annotend[{nid}#{nth}]", [], ' }')))
                        continue
                    edits.append((p, q + 1, rep(f"|{mparams.group(1)}| -> {mparams.group(2)}", s[p:q + 1])))
                    edits.append((k, k, ins(f"{cid0}:annot[{nid}#{nth}]", sorted(tg), clauses.rstrip() + '\n{ ')))
                    edits.append((e, e, ins(f"{cid0}:annotend[{nid}#{nth}]", [], ' }')))
                # @each "word": the clause is inserted before EVERY line of the body on which `word` occurs as a whole word
                # (used for `return`: "no exit of this function skips X" - on the reference tree there may be no occurrence at
                # all, which is not a lost anchor). An occurrence that is not at a statement start makes the woven ghost code
                # unparsable, which is UNDECIDED by the usual rule.
                for (needle, _nth), clause in spec.get('each', []):
                    seen_ls = set()
                    for k, m in enumerate(re.finditer(r'\b' + re.escape(needle) + r'\b', body), 1):
                        if not code(f['open'] + m.start()): continue
                        ls = s.rfind('\n', 0, f['open'] + m.start()) + 1
                        if ls in seen_ls: continue
                        seen_ls.add(ls)
                        edits.append((ls, ls, ins(f"{cid0}:each[{needle}#{k}]", props, clause + '\n')))
                for kind in ('before', 'after'):
                    for (needle, nth), clause in spec.get(kind, []):
                        idxs = [m.start() for m in re.finditer(re.escape(needle), body) if code(f['open'] + m.start())]
                        if nth > len(idxs):
                            tg = set(props)
                            for tm in re.finditer(r'(?m)^\s*\[((?:C\d+)(?:,C\d+)*)\]|/\*@p ((?:C\d+)(?:,C\d+)*)\*/', clause):
                                tg |= set((tm.group(1) or tm.group(2)).split(','))
                            self.soft_lost.append({'desc': f"{rel}: {kind} \"{needle}\" #{nth} in {qual}", 'props': sorted(tg)}); continue
                        p = f['open'] + idxs[nth - 1]
                        if kind == 'before':
                            ls = s.rfind('\n', 0, p) + 1
                            claimed.add(ls)
                            edits.append((ls, ls, ins(f"{cid0}:before[{needle}#{nth}]", props, clause + '\n')))
                        else:
                            i = p; d = 0
                            while i < f['close']:
                                if mask[i]:
                                    if s[i] in '([{': d += 1
                                    elif s[i] in ')]}': d -= 1
                                    elif s[i] == ';' and d == 0: break
                                i += 1
                            edits.append((i + 1, i + 1, ins(f"{cid0}:after[{needle}#{nth}]", props, '\n' + clause)))

        # closure factories generated by T15 (appended to the module like @items)
        # (filled inside the function loop above)

        # @sites: every occurrence of an emission-site needle must carry a @before clause of some verified function;
        # an unclaimed occurrence inside a verified body gets the failing guard `unexpected-emission-site`,
        # an occurrence outside every verified body cannot be guarded at all (lost => UNDECIDED).
        for needle, sprops in ov.get('sites', []):
            for m in re.finditer(re.escape(needle), s):
                if not code(m.start()): continue
                ls = s.rfind('\n', 0, m.start()) + 1
                if ls in claimed: continue
                # an emission site (event push, state assignment, socket send, callback call ...) that no overlay clause
                # guards: reported directly as a failed obligation of the site's properties (no code is inserted, so a site
                # written inside a one-line match arm cannot make the woven file unparsable)
                ln = s.count(chr(10), 0, ls) + 1
                claimed.add(ls)
                self.unclaimed_sites.append({'file': rel, 'line': ln, 'needle': needle, 'props': sprops or ov['props'],
                                             'text': s[ls:s.find(chr(10), ls)].strip()[:160],
                                             'inside_verified_fn': any(a < m.start() < b for a, b in verified_spans)})

        # nested modules
        for m in re.finditer(r'(?m)^([ \t]*)(pub(?:\s*\([a-z]+\))?\s+)?mod\s+([a-z_0-9]+)\s*;', s):
            if not code(m.start(3)): continue
            name = m.group(3)
            for cand, sub in ((os.path.join(moddir, name + '.rs'), os.path.join(moddir, name)),
                              (os.path.join(moddir, name, 'mod.rs'), os.path.join(moddir, name))):
                if os.path.exists(cand):
                    crel = os.path.relpath(cand, self.root)
                    inner = self.weave_file(cand, sub, crel)
                    new = f"{m.group(2) or ''}mod {name} {{ /*@@file {crel}*/ use vstd::prelude::*; /*@@begin*/{inner}/*@@endfile*/ }}"
                    a = m.start() + len(m.group(1))
                    edits.append((a, m.end(), new))
                    break
            else:
                self.lost.append(f"{rel}: mod {name} not found")

        # items
        tail = ''
        for n, (pr, text) in enumerate(ov['items']):
            tail += ins(f"{ov['path']}:items#{n+1}", pr or ov['props'], '\n' + text + '\n')
        tail += ''.join(factories)

        # apply
        edits = sorted(enumerate(edits), key=lambda t: (t[1][0], t[0]))
        out = []; pos = 0
        for _, (a, b, text) in edits:
            if a < pos:
                raise ValueError(f"{rel}: overlapping edits at {a} ({text[:60]!r})")
            out.append(s[pos:a]); out.append(text); pos = b
        out.append(s[pos:])
        return ''.join(out) + tail

    def weave(self):
        body = self.weave_file(os.path.join(self.src, 'lib.rs'), self.src, 'src/lib.rs')
        head = ("#![feature(allocator_api)]\n#![allow(unused_imports, dead_code, unused_variables, unused_mut, unused_parens, unused_braces, non_snake_case)]\n"
                "use vstd::prelude::*;\nverus! {\n" + ins('prelude', [], self.prelude) + "\n/*@@file src/lib.rs*/ /*@@begin*/")
        return head + body + "/*@@endfile*/\n} // verus!\nfn main() {}\n"


# ----------------------------------------------------------------------------- erasure and maps

INS_RE = re.compile(r'/\*@\+ [^*]*\*/.*?/\*@-\*/', re.S)
REP_RE = re.compile(r'/\*@R\{\*/.*?/\*@\|(.*?)@\}\*/', re.S)


def erase(woven):
    """returns {rel: text} reconstructed from the woven file."""
    a = woven.index('/*@@file src/lib.rs*/')
    s = woven[a:woven.rindex('/*@@endfile*/') + len('/*@@endfile*/')]
    s = INS_RE.sub('', s)
    s = REP_RE.sub(lambda m: m.group(1), s)
    files = {}
    pat = re.compile(r'(pub(?:\s*\([a-z]+\))?\s+)?mod ([a-z_0-9]+) \{ /\*@@file (\S+)\*/ use vstd::prelude::\*; /\*@@begin\*/')
    while True:
        ms = list(pat.finditer(s))
        if not ms: break
        # innermost = last opener before the first endfile after it with no other opener in between
        done = False
        for m in reversed(ms):
            e = s.index('/*@@endfile*/ }', m.end())
            inner = s[m.end():e]
            if '/*@@file ' in inner: continue
            files[m.group(3)] = inner
            s = s[:m.start()] + f"{m.group(1) or ''}mod {m.group(2)};" + s[e + len('/*@@endfile*/ }'):]
            done = True
            break
        if not done: raise ValueError('erase: nesting')
    m = re.match(r'/\*@@file src/lib.rs\*/ /\*@@begin\*/(.*)/\*@@endfile\*/$', s, re.S)
    files['src/lib.rs'] = m.group(1)
    return files


DROPPABLE = (':before[', ':after[', ':start#', ':end#', ':loop')


def strip_clauses(woven, cids):
    """remove the marked insertions whose clause id is in `cids` (site clauses and loop clauses only: they are
    self-contained, removing them leaves the real text and the other insertions untouched). Returns (text, dropped)
    where dropped = [(cid, sorted property tags of the removed text)]."""
    dropped = []
    def rep_(m):
        cid = m.group(1)
        if cid in cids and any(k in cid for k in DROPPABLE):
            tags = set() if m.group(2) == '-' else set(m.group(2).split(','))
            for t in re.finditer(r'/\*@p ([C0-9,]+)\*/', m.group(3)): tags |= set(t.group(1).split(','))
            mq = re.match(r'^[^:]+:(.+?):(?:before|after|start|end|loop)', cid)
            # dropping an assertion or a ghost `let` only removes proved facts; dropping a loop clause or a proof hint (lemma
            # call, reveal, broadcast use) can make OTHER obligations of the function unprovable for no semantic reason
            unsafe = ':loop' in cid or bool(re.search(r'\blemma_\w+\s*\(|broadcast use|reveal\s*\(|\bby\s*\(', m.group(3)))
            dropped.append((cid, sorted(tags), mq.group(1) if mq else None, unsafe))
            return f"/*@+ {cid} -*/" + '\n' * m.group(3).count('\n') + '/*@-*/'   # emptied insertion, line numbers stable
        return m.group(0)
    text = re.sub(r'/\*@\+ (\S+) ([C0-9,]+|-)\*/(.*?)/\*@-\*/', rep_, woven, flags=re.S)
    return text, dropped


def line_map(woven):
    """per woven line (1-based index): dict(file, line) or dict(clause, props); plus clause line tags."""
    res = [None]
    stack = []
    region = None
    i = 0; n = len(woven)
    cur = {'file': None, 'line': 0}
    lines = woven.split('\n')
    tok = re.compile(r'/\*@@file (\S+)\*/|/\*@@begin\*/|/\*@@endfile\*/|/\*@\+ (.*?) ([C0-9,]+|-)\*/|/\*@-\*/')
    for ln, text in enumerate(lines, 1):
        # state at line start decides the attribution; tokens on the line update state for following text
        entry = None
        events = list(tok.finditer(text))
        # attribution: if region open at start or a region opens on this line and no file text precedes
        if region is not None:
            entry = {'clause': region[0], 'props': region[1]}
        elif stack:
            entry = {'file': stack[-1][0], 'line': stack[-1][1]}
        for ev in events:
            t = ev.group(0)
            if t.startswith('/*@@file'):
                stack.append([ev.group(1), 1])
            elif t == '/*@@begin*/':
                if entry is None or 'file' in (entry or {}):
                    entry = {'file': stack[-1][0], 'line': stack[-1][1]}
            elif t == '/*@@endfile*/':
                stack.pop()
            elif t.startswith('/*@+'):
                region = (ev.group(2), [] if ev.group(3) == '-' else ev.group(3).split(','))
                if entry is not None and 'file' in entry and text[:ev.start()].strip() == '':
                    entry = {'clause': region[0], 'props': region[1], 'near': dict(entry)}
                elif entry is not None and 'file' in entry:
                    entry = dict(entry); entry.setdefault('clauses', []).append((region[0], region[1]))
            elif t == '/*@-*/':
                region = None
        pm = re.search(r'/\*@p ([C0-9,]+)\*/', text)
        if pm and entry is not None and 'clause' in entry:
            entry = dict(entry); entry['props'] = pm.group(1).split(','); entry['explicit'] = True
        res.append(entry)
        # newline accounting: the newline ending this line belongs to the file iff no region is open
        if region is None and stack:
            stack[-1][1] += 1
    return res


def woven_functions(woven):
    """function ranges in the woven text: list of (start_line, end_line, qual, file)."""
    mask = scan_code(woven)
    # a woven contract (`:spec` region between signature and body) may contain `==> { &&& .. }` blocks: hide it, so that
    # the first `{` index_functions sees after the signature is the body's
    for m in re.finditer(r'/\*@\+ [^*]*?:spec\b[^*]*\*/', woven):
        e = woven.find('/*@-*/', m.end())
        if e > 0: mask[m.end():e] = b'\x00' * (e - m.end())
    fns, _ = index_functions(woven, mask)
    lm = line_map(woven)
    out = []
    for f in fns:
        a = woven.count('\n', 0, f['start']) + 1
        b = woven.count('\n', 0, f['close']) + 1
        e = lm[min(woven.count('\n', 0, f['fn_kw']) + 1, len(lm) - 1)]
        file = None
        if e:
            file = e.get('file') or (e.get('near') or {}).get('file')
            if not file and 'clause' in e:
                file = 'items:' + e['clause'].split(':')[0]
        out.append({'a': a, 'b': b, 'qual': f['qual'], 'tqual': f['tqual'], 'file': file, 'name': f['name']})
    return out


def main():
    import argparse
    ap = argparse.ArgumentParser()
    ap.add_argument('repo'); ap.add_argument('contracts'); ap.add_argument('prelude'); ap.add_argument('out')
    a = ap.parse_args()
    w = Weaver(a.repo, a.contracts, a.prelude)
    text = w.weave()
    open(a.out, 'w').write(text)
    er = erase(text)
    bad = [k for k in w.originals if er.get(k) != w.originals[k]]
    json.dump({'transforms': w.transforms, 'lost': w.lost, 'functions': w.fn_info, 'erasure_mismatch': bad},
              open(a.out + '.map.json', 'w'), indent=1)
    print(f"woven {text.count(chr(10))} lines; transforms={len(w.transforms)}; lost={w.lost}; erasure_mismatch={bad}")
    for sl in w.soft_lost: print('soft-lost:', sl['desc'], sl['props'])
    if w.unclaimed_sites: print('unclaimed sites:', w.unclaimed_sites)
    sys.exit(2 if (w.lost or bad) else 0)


if __name__ == '__main__':
    main()
