#!/usr/bin/env python3
"""Put the table of seeded changes (seeded/RESULTS.json, written by tools/seeded_table.py) into DESIGN.md between the
SEEDED_TABLE markers."""
import json, os, re
HERE = os.path.dirname(os.path.abspath(__file__)); VERIF = os.path.dirname(HERE)
res = json.load(open(os.path.join(VERIF, 'seeded', 'RESULTS.json')))
def key(r):
    m = re.match(r'C(\d+)-(\d+)', r['id']); return (int(m.group(1)), int(m.group(2)))
rows = ['| id | site | needs, in order to manifest | outcome of `./check <property>` | first failing obligation |', '|----|------|------|------|------|']
for r in sorted(res, key=key):
    ob = re.sub(r'\s+', ' ', r['obligation'].replace('|', '¦'))[:140]
    rows.append(f"| {r['id']} | `{r['files']}` {r['site'].replace('|', '¦')[:50]} | {r['needs'][:130].replace('|', '¦')} | {r['outcome']} | {ob} |")
n = len(res); v = sum(1 for r in res if r['outcome'].startswith('VIOLATION')); u = sum(1 for r in res if r['outcome'].startswith('UNDECIDED'))
head = f"{n} confirmed changes; {v} reported as VIOLATION ({sum(1 for r in res if 'with input' in r['outcome'])} with a concrete failing input), {u} UNDECIDED, {n - v - u} missed."
text = '<!-- SEEDED_TABLE_BEGIN -->\n' + head + '\n\n' + '\n'.join(rows) + '\n<!-- SEEDED_TABLE_END -->'
p = os.path.join(VERIF, 'DESIGN.md'); t = open(p).read()
if '<!-- SEEDED_TABLE_BEGIN -->' in t:
    t = re.sub(r'<!-- SEEDED_TABLE_BEGIN -->.*?<!-- SEEDED_TABLE_END -->', lambda m: text, t, flags=re.S)
else:
    t = t.replace('\nSEEDED_TABLE\n', '\n' + text + '\n')
open(p, 'w').write(t)
print(head)
