"""Native witness tests: plain `cargo test` on a scratch copy of the crate with /verif/native/*.rs test
modules appended to the real source files (so private state is reachable exactly as for the crate's
own `mod tests`).  They are NOT proof: each is a concrete scenario (regression replay of a fixed
defect, or a small search) and is reported as kind='bounded'.  Used (a) in the thorough tier, and
(b) after a Verus failure to look for a concrete failing input for the replay file.
"""
import os, re, subprocess, time, shutil, json

HERE = os.path.dirname(os.path.abspath(__file__)); VERIF = os.path.dirname(HERE)


def load(prop=None):
    d = os.path.join(VERIF, 'native')
    out = []
    for f in sorted(os.listdir(d)):
        if not f.endswith('.rs'): continue
        text = open(os.path.join(d, f)).read()
        m_file = re.search(r'(?m)^//@file (\S+)', text)
        m_int = re.search(r'(?m)^//@integration (\S+)', text)
        props = (re.search(r'(?m)^//@props (.*)$', text) or [None, ''])[1].split()
        out.append({'name': f, 'text': text, 'file': m_file and m_file.group(1), 'integration': m_int and m_int.group(1), 'props': props})
    return [o for o in out if prop is None or prop in o['props']]


def build_copy(repo, scratch, mods):
    dst = os.path.join(scratch, 'native_repo')
    subprocess.check_call(['rsync', '-a', '--exclude', 'target', '--exclude', '.git', repo.rstrip('/') + '/', dst + '/'])
    for m in mods:
        if m['file']:
            p = os.path.join(dst, m['file'])
            if not os.path.exists(p): continue
            open(p, 'a').write('\n' + m['text'])
        elif m['integration']:
            open(os.path.join(dst, 'tests', m['integration'] + '.rs'), 'w').write(m['text'])
    return dst


def run_tests(dst, mods, timeout=600):
    """returns list of (test name, ok, output excerpt)"""
    res = []
    env = dict(os.environ, CARGO_NET_OFFLINE='true', CARGO_TARGET_DIR=os.path.join(dst, 'target'))
    cmds = []
    if any(m['file'] for m in mods):
        cmds.append(['cargo', 'test', '--offline', '--lib', 'verif_', '--', '--test-threads', '8'])
    for m in mods:
        if m['integration']:
            cmds.append(['flock', '/tmp/uflow_ports.lock', 'cargo', 'test', '--offline', '--test', m['integration']])
    for c in cmds:
        try:
            p = subprocess.run(c, cwd=dst, capture_output=True, text=True, timeout=timeout, env=env)
            out = p.stdout + p.stderr
        except subprocess.TimeoutExpired as e:
            res.append((' '.join(c), None, 'timeout')); continue
        if 'error[' in out and 'test result' not in out:
            res.append((' '.join(c), None, 'build error: ' + out[-1500:])); continue
        for m in re.finditer(r'(?m)^test (\S+) \.\.\. (ok|FAILED)', out):
            name = m.group(1)
            exc = ''
            if m.group(2) == 'FAILED':
                mm = re.search(r'---- ' + re.escape(name) + r' stdout ----\n(.*?)(?=\n---- |\nfailures:|\Z)', out, re.S)
                exc = (mm.group(1) if mm else '')[:1500]
            res.append((name, m.group(2) == 'ok', exc))
    return res


def run(run, group):
    """thorough-tier unit: group = property id (all native tests tagged with it)"""
    mods = load(group)
    if not mods: return
    t = time.time()
    dst = build_copy(os.environ.get('UFLOW_REPO', '/repo'), run.scratch, mods)
    res = run_tests(dst, mods)
    shutil.rmtree(os.path.join(dst, 'target'), ignore_errors=True)
    for name, ok, exc in res:
        if ok is None:
            run.notes.append(f'native tests not run: {name}: {exc[:300]}')
            continue
        run.extra.setdefault('bounded', []).append({'name': 'native:' + name, 'engine': 'cargo test (scratch copy, module appended to the real file)', 'ok': ok,
                                                    'bound': 'one concrete scenario', 'kind': 'bounded'})
        if not ok:
            run.failures.append({'engine': 'native', 'key': f'native:{name}', 'props': [group], 'fn': name, 'msg': 'native witness test failed',
                                 'clause': None, 'where': name, 'src': '', 'rendered': exc, 'input': f'test {name} (see /verif/native)',
                                 'replay_cmd': f'append /verif/native module to the source file and run: cargo test --offline {name.split("::")[-1]}', 'replay_output': exc})
    run.extra['native_wall_s'] = round(time.time() - t, 1)


def witness(run, viol):
    """after a Verus/Kani failure without input: run the property's native tests; attach a failing one as input."""
    mods = load(run.prop)
    if not mods: return
    try:
        dst = build_copy(os.environ.get('UFLOW_REPO', '/repo'), run.scratch, mods)
        res = run_tests(dst, mods, timeout=300)
        shutil.rmtree(os.path.join(dst, 'target'), ignore_errors=True)
    except Exception as e:
        run.notes.append(f'witness search failed to run: {e}')
        return
    failing = [(n, exc) for n, ok, exc in res if ok is False]
    run.extra['witness_search'] = {'tests_run': [n for n, ok, _ in res if ok is not None], 'failing': [n for n, _ in failing]}
    if failing:
        n, exc = failing[0]
        for f in viol:
            if not f.get('input'):
                f['input'] = f'native test {n} fails on this tree'
                f['replay_cmd'] = f'append the module from /verif/native to the real source file in a scratch copy and run: cargo test --offline {n.split("::")[-1]}'
                f['replay_output'] = exc


def witness_on_undecided(run, reason):
    """the verifier could not decide (unsupported construct, resource limit, lost anchor): a failing native test of the
    property is still a concrete violation on the real code. Returns a list of failure dicts (possibly empty)."""
    mods = load(run.prop)
    if not mods: return []
    try:
        dst = build_copy(os.environ.get('UFLOW_REPO', '/repo'), run.scratch, mods)
        res = run_tests(dst, mods, timeout=300)
        shutil.rmtree(os.path.join(dst, 'target'), ignore_errors=True)
    except Exception as e:
        run.notes.append(f'witness search failed to run: {e}')
        return []
    out = []
    for n, ok, exc in res:
        if ok is False:
            out.append({'engine': 'native', 'key': f'native:{n}', 'props': [run.prop], 'fn': n, 'msg': 'native witness test fails on this tree (verifier undecided: ' + reason[:160] + ')',
                        'clause': None, 'where': n, 'src': '', 'rendered': exc, 'input': f'native test {n} (/verif/native)',
                        'replay_cmd': f'append the module from /verif/native to the real source file in a scratch copy and run: cargo test --offline {n.split("::")[-1]}', 'replay_output': exc})
    run.extra['witness_search'] = {'tests_run': [n for n, ok, _ in res if ok is not None], 'failing': [f['fn'] for f in out], 'trigger': 'undecided: ' + reason[:200]}
    return out
