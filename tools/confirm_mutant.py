#!/usr/bin/env python3
"""Confirm a seeded change in a scratch worktree of /repo and store it under /verif/seeded/<id>/.

usage: confirm_mutant.py <id> <property> <patch.diff> <demo.rs> <append:src/path.rs | tests:name> <test-filter> [--needs "..."] [--demo-md file]

Steps (all in a fresh worktree under /tmp, removed afterwards):
  1. unmodified HEAD + demo           -> demo must PASS
  2. patch applied + demo             -> demo must FAIL
  3. patch applied, no demo           -> crate builds, `cargo test --lib` passes, each integration test file passes
                                        alone under the port lock (baseline-flaky tests are retried once)
"""
import os, sys, subprocess, shutil, json, argparse, tempfile, re

ap = argparse.ArgumentParser()
ap.add_argument('id'); ap.add_argument('prop'); ap.add_argument('patch'); ap.add_argument('demo'); ap.add_argument('target'); ap.add_argument('filter')
ap.add_argument('--needs', default=''); ap.add_argument('--demo-md', default=None); ap.add_argument('--skip-integration', action='store_true')
a = ap.parse_args()
wt = tempfile.mkdtemp(prefix='confirm_', dir='/tmp'); os.rmdir(wt)
env = dict(os.environ, CARGO_NET_OFFLINE='true')
log = []


def sh(cmd, **kw):
    p = subprocess.run(cmd, shell=True, cwd=wt, capture_output=True, text=True, env=env, **kw)
    log.append(f"$ {cmd}\n(exit {p.returncode})\n" + (p.stdout + p.stderr)[-1500:])
    return p


def install_demo():
    kind, _, where = a.target.partition(':')
    text = open(a.demo).read()
    if kind == 'append':
        open(os.path.join(wt, where), 'a').write('\n' + text)
    else:
        open(os.path.join(wt, 'tests', where + '.rs'), 'w').write(text)


def run_demo():
    kind, _, where = a.target.partition(':')
    if kind == 'append':
        return sh(f"timeout 600 cargo test --offline --lib {a.filter}")
    return sh(f"flock /tmp/uflow_ports.lock timeout 600 cargo test --offline --test {where} {a.filter}")


def demo_ok(p):
    out = p.stdout + p.stderr
    return p.returncode == 0 and 'test result: ok' in out and ' 0 passed' not in out.split('test result: ok')[-1][:40]


subprocess.check_call(['git', '-C', '/repo', 'worktree', 'add', '-q', '--detach', wt, 'HEAD'])
ok = False
try:
    install_demo()
    p1 = run_demo()
    r1 = demo_ok(p1)
    sh("git checkout -q -- . && git clean -qfd src tests")
    pa = sh(f"git apply {a.patch}")
    if pa.returncode != 0:
        print('PATCH DOES NOT APPLY'); print(log[-1]); sys.exit(1)
    install_demo()
    p2 = run_demo()
    r2 = (p2.returncode != 0) and ('error[' not in (p2.stdout + p2.stderr) or 'test result' in (p2.stdout + p2.stderr))
    sh("git checkout -q -- . && git clean -qfd src tests")
    sh(f"git apply {a.patch}")
    p3 = sh("timeout 900 cargo test --offline --lib")
    r3 = p3.returncode == 0
    r4 = True; itres = {}
    if not a.skip_integration:
        for t in ['disconnect', 'ideal_transfer', 'reliable_transfer', 'timeouts']:
            extra = ' -- --test-threads=1' if t == 'timeouts' else ''
            # BASELINE.json: timeouts::server_active_timeout is flaky and timeouts::client_handshake_timeout always fails on the
            # untouched tree (thread start-order race); a run in which only those fail counts as passing. Other failures are
            # retried (the loopback tests are timing-sensitive under load).
            tolerated = {'server_active_timeout', 'client_handshake_timeout'}
            okrun = False
            for attempt in range(4):
                p = sh(f"flock /tmp/uflow_ports.lock timeout 900 cargo test --offline --test {t}{extra}")
                failed = set(re.findall(r'(?m)^test (\S+) \.\.\. FAILED', p.stdout + p.stderr))
                if p.returncode == 0 or (failed and failed <= tolerated and 'test result' in (p.stdout + p.stderr)):
                    okrun = True; break
                log.append(f'attempt {attempt + 1} of {t}: failed tests {sorted(failed)}')
            itres[t] = okrun
            r4 = r4 and itres[t]
    print(f"demo on HEAD passes: {r1}; demo with patch fails: {r2}; lib tests with patch pass: {r3}; integration with patch: {itres}")
    ok = r1 and r2 and r3 and r4
    if ok:
        d = os.path.join('/verif/seeded', a.id); os.makedirs(d, exist_ok=True)
        shutil.copy(a.patch, os.path.join(d, 'patch.diff'))
        shutil.copy(a.demo, os.path.join(d, os.path.basename(a.demo)))
        if a.demo_md: shutil.copy(a.demo_md, os.path.join(d, 'demo.md'))
        head = subprocess.check_output(['git', '-C', '/repo', 'rev-parse', '--short', 'HEAD'], text=True).strip()
        json.dump({'property': a.prop, 'needs_to_manifest': a.needs, 'demo': os.path.basename(a.demo), 'demo_target': a.target, 'demo_filter': a.filter,
                   'confirmed_at_repo_head': head,
                   'what_i_ran': ['HEAD + demo -> pass', 'patch + demo -> fail', 'patch: cargo test --offline --lib -> pass',
                                  'patch: each integration test file alone under flock -> pass' if not a.skip_integration else 'integration tests skipped'],
                   'source': 'independent sub-agent given only the property text and a scratch worktree'},
                  open(os.path.join(d, 'meta.json'), 'w'), indent=1)
        print('STORED', d)
    else:
        print('\n'.join(log[-6:]))
finally:
    subprocess.call(['git', '-C', '/repo', 'worktree', 'remove', '--force', wt])
sys.exit(0 if ok else 1)
