#!/usr/bin/env python3
"""Regenerate /verif/MANIFEST.json from props.json (single source of truth for claims)."""
import json, os
HERE = os.path.dirname(os.path.abspath(__file__)); VERIF = os.path.dirname(HERE)
cfg = json.load(open(os.path.join(VERIF, 'props.json')))
props = [json.loads(l) for l in open(os.path.join(VERIF, 'properties.jsonl'))]
checks = []; na = []
for p in props:
    pid = p['id']
    pc = cfg['properties'].get(pid)
    if not pc or not pc.get('claimed', True):
        na.append({'property_id': pid, 'reason': (pc or {}).get('reason') or cfg['not_applicable'].get(pid) or 'not claimed'})
        continue
    checks.append({
        'property_id': pid,
        'quick_cmd': f'./check {pid} --tier quick',
        'thorough_cmd': f'./check {pid} --tier thorough',
        'evidence_file': f'/verif/evidence/{pid}.json',
        'replay_cmd_template': './check ' + pid + ' --replay {path}',
        'engine': pc.get('engine', 'verus'),
        'level_claimed': {'category': ('other' if pc.get('level') == 'bounded' else pc.get('level', 'proof')), 'text': pc['level_text'], 'design_ref': pc.get('design_ref', f'DESIGN.md §5 {pid}')},
        'level_note': pc['level_note'],
        'technique': pc.get('technique', 'contract-based deductive verification (Verus) of the real source, woven with contracts on every run'),
    })
m = {
    'version': 1,
    'setup_cmd': 'true',
    'hooks': {
        'guard': 'none — no source hooks: contracts and harnesses are woven into a scratch copy of /repo on every run (cfg(kani) and the verus! wrapper exist only there)',
        'enable': 'n/a (./check <ID> weaves /repo\'s current working tree into /var/tmp/uflow-verif.*/ and verifies it)',
        'baseline_off_cmd': 'cd /repo && (cargo nextest run --workspace --no-fail-fast --tool-config-file pb:/w/lib/nextest.toml --profile pb --test-threads 8 --offline || cargo test --workspace --no-fail-fast --offline)',
        'source_commits': [],
        'add_only': True,
    },
    'engines': cfg.get('engines', []),
    'checks': checks,
    'notes': cfg.get('notes', ''),
    'not_applicable': na,
}
json.dump(m, open(os.path.join(VERIF, 'MANIFEST.json'), 'w'), indent=1)
print(f"{len(checks)} checks, {len(na)} not applicable")
