#!/usr/bin/env python3
"""Regenerate /verif/known_functions.json: the functions (file -> qualified names) of the reference tree the contracts were
written against. check.py uses it to recognise functions that are NEW in the tree under check: such a function has no
contract (it is woven as external_body, i.e. its effect is unknown), so a proof that fails in one of its callers is
"needs a contract" (UNDECIDED), not a violation.  Run after every fix: commit in /repo."""
import os, sys, json
HERE = os.path.dirname(os.path.abspath(__file__)); VERIF = os.path.dirname(HERE)
sys.path.insert(0, HERE)
import weave
repo = sys.argv[1] if len(sys.argv) > 1 else '/repo'
w = weave.Weaver(repo, os.path.join(VERIF, 'contracts'), os.path.join(VERIF, 'verus'))
w.weave()
out = {}
for f in w.fn_info:
    out.setdefault(f['file'], []).append(f['qual'])
for k in out: out[k] = sorted(set(out[k]))
json.dump(out, open(os.path.join(VERIF, 'known_functions.json'), 'w'), indent=1, sort_keys=True)
print(sum(len(v) for v in out.values()), 'functions in', len(out), 'files')
