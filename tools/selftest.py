#!/usr/bin/env python3
"""Run the checks against seeded / self-test mutants on scratch copies of /repo (never touches /repo).

usage: selftest.py [--all-props] [--only <substr>] [--jobs N]
  seeded/<id>/{patch.diff,meta.json}        meta.json: {"property": "C20", ...}
  selftest/mutants/<name>.diff              first line: `# property: C20` ; `# harmless` for edits that must pass
For each mutant: expected = exit 1 from ./check <property> (or exit 0 for harmless edits).
With --all-props every claimed property's check is run against every mutant and the full matrix is printed.
"""
import os, sys, json, subprocess, tempfile, shutil, argparse, re, concurrent.futures as cf
HERE = os.path.dirname(os.path.abspath(__file__)); VERIF = os.path.dirname(HERE)


def mutants():
    out = []
    sd = os.path.join(VERIF, 'seeded')
    if os.path.isdir(sd):
        for d in sorted(os.listdir(sd)):
            p = os.path.join(sd, d, 'patch.diff'); m = os.path.join(sd, d, 'meta.json')
            if os.path.exists(p) and os.path.exists(m):
                meta = json.load(open(m))
                out.append({'name': 'seeded/' + d, 'patch': p, 'props': [meta['property']] if isinstance(meta['property'], str) else meta['property'], 'harmless': False})
    md = os.path.join(VERIF, 'selftest', 'mutants')
    if os.path.isdir(md):
        for f in sorted(os.listdir(md)):
            if not f.endswith('.diff'): continue
            p = os.path.join(md, f)
            head = open(p).read(400)
            pm = re.search(r'# property: ([C0-9, ]+)', head)
            out.append({'name': 'selftest/' + f, 'patch': p, 'props': [x.strip() for x in pm.group(1).split(',')] if pm else [],
                        'harmless': '# harmless' in head})
    return out


def run_one(mut, props):
    scratch = tempfile.mkdtemp(prefix='uflow-selftest.', dir='/var/tmp')
    try:
        repo = os.path.join(scratch, 'repo')
        subprocess.check_call(['rsync', '-a', '--exclude', 'target', '--exclude', '.git', '/repo/', repo + '/'])
        r = subprocess.run(['patch', '-p1', '-s', '-d', repo, '-i', mut['patch']], capture_output=True, text=True)
        if r.returncode != 0:
            return mut, {p: ('PATCH-FAILED', r.stdout + r.stderr) for p in props}
        res = {}
        for p in props:
            env = dict(os.environ, UFLOW_REPO=repo, VERIF_NO_EVIDENCE='1')
            c = subprocess.run([os.path.join(VERIF, 'check'), p], capture_output=True, text=True, env=env)
            last = [l for l in c.stdout.strip().split('\n') if l.startswith(('VIOLATION', 'UNDECIDED', 'OK', 'FAILED-OBLIGATION'))]
            res[p] = (c.returncode, ' | '.join(l[:230] for l in last[-3:]))
        return mut, res
    finally:
        shutil.rmtree(scratch, ignore_errors=True)


def main():
    ap = argparse.ArgumentParser()
    ap.add_argument('--all-props', action='store_true'); ap.add_argument('--only', default=None); ap.add_argument('--jobs', type=int, default=4)
    a = ap.parse_args()
    claimed = [c['property_id'] for c in json.load(open(os.path.join(VERIF, 'MANIFEST.json')))['checks']]
    muts = [m for m in mutants() if not a.only or a.only in m['name']]
    bad = 0
    with cf.ThreadPoolExecutor(a.jobs) as ex:
        futs = [ex.submit(run_one, m, claimed if a.all_props else [p for p in m['props'] if p in claimed] or m['props']) for m in muts]
        for f in futs:
            m, res = f.result()
            for p, (rc, line) in sorted(res.items()):
                target = p in m['props'] and not m['harmless']
                exp = 1 if target else 0
                ok = (rc == exp)
                tag = 'ok  ' if ok else ('MISS' if target else ('FALSE-ALARM' if rc == 1 else 'UNDEC' if rc == 2 else 'ERR'))
                if not ok: bad += 1
                print(f"{tag:11} {m['name']:45} {p} rc={rc}  {line}")
    sys.exit(1 if bad else 0)


if __name__ == '__main__':
    main()
