#!/usr/bin/env python3
"""./check <ID> [--tier quick|thorough] — decide one property on /repo's current working tree.

exit 0  every obligation of the property's units discharged (known findings printed, proof gaps printed)
exit 1  VIOLATION property=<id> replay=<path> [no-failing-input-found]
exit 2  UNDECIDED (lost anchor, unsupported construct, erasure mismatch, canary passed, rlimit/timeout)
"""
import os, sys, json, re, time, subprocess, tempfile, shutil, hashlib, argparse, atexit

sys.modules.setdefault('check', sys.modules[__name__])   # units do `import check`: must be THIS module (same Undecided class)
HERE = os.path.dirname(os.path.abspath(__file__))
VERIF = os.path.dirname(HERE)
sys.path.insert(0, HERE)
import weave  # noqa

REPO = os.environ.get('UFLOW_REPO', '/repo')
# self-test runs (tools/selftest.py) must not overwrite the evidence of the real tree
OUTDIR = VERIF if not os.environ.get('VERIF_NO_EVIDENCE') else os.path.join('/var/tmp', 'uflow-selftest-out')

VERIFICATION_MSGS = [
    'postcondition not satisfied', 'precondition not satisfied', 'assertion failed',
    'possible arithmetic underflow/overflow', 'possible division by zero',
    'invariant not satisfied before loop', 'invariant not satisfied at end of loop body',
    'decreases not satisfied', 'possible bit shift underflow/overflow',
    'unable to prove assertion safety condition', 'could not prove termination',
    'cannot show invariant holds', 'constructed value may fail to meet its declared type invariant',
    'assertion failure', 'assertion failed in bit vector', 'bit_vector', 'by (compute)', 'expression simplifies to',
    'failed to unwrap', 'possible overflow', 'index out of bounds', 'may be out of bounds',
    'loop invariant', 'assert_by_compute', 'cannot prove', 'failed precondition', 'postcondition',
    'expected Err', 'possible truncation', 'not satisfied', 'unable to prove', 'post-condition', 'precondition not met', 'index in bounds', 'not met',
]
UNDECIDED_MSGS = ['Resource limit (rlimit) exceeded', 'timed out', 'rlimit']


def log(*a):
    print(*a, file=sys.stderr, flush=True)


def sha_tree(root):
    h = hashlib.sha256()
    for d, _, fs in sorted(os.walk(os.path.join(root, 'src'))):
        for f in sorted(fs):
            if f.endswith('.rs'):
                p = os.path.join(d, f)
                h.update(p.encode()); h.update(open(p, 'rb').read())
    return h.hexdigest()


def file_to_module(rel):
    p = rel[len('src/'):] if rel.startswith('src/') else rel
    p = p[:-3] if p.endswith('.rs') else p
    parts = p.split('/')
    if parts[-1] in ('mod', 'lib'): parts = parts[:-1]
    return '::'.join(parts)


class Undecided(Exception):
    pass


class Run:
    def __init__(self, prop, tier, seed):
        self.prop = prop; self.tier = tier; self.seed = seed
        self.t0 = time.time()
        self.scratch = tempfile.mkdtemp(prefix='uflow-verif.', dir='/var/tmp')
        atexit.register(lambda: shutil.rmtree(self.scratch, ignore_errors=True))
        self.cfg = json.load(open(os.path.join(VERIF, 'props.json')))
        self.pc = self.cfg['properties'][prop]
        self.known = json.load(open(os.path.join(VERIF, 'known_findings.json')))
        self.gaps = json.load(open(os.path.join(VERIF, 'proof_gaps.json')))
        self.deferred_undecided = []   # reasons that make the run UNDECIDED unless a violation is found
        self.failures = []     # dicts: key, props, text, engine
        self.obligations = []  # dicts: name, engine, ok, ms
        self.assumptions = []
        self.samples = []
        self.notes = []
        self.extra = {}

    # ------------------------------------------------------------------ Verus
    def weave(self, demote=(), skip=()):
        w = weave.Weaver(REPO, os.path.join(VERIF, 'contracts'), os.path.join(VERIF, 'verus'), demote=demote)
        text = w.weave()
        if skip:
            # overlay clauses that no longer compile against this tree (they name a ghost variable whose defining anchor was
            # lost, or a local that was renamed): dropped like a lost anchor - the properties they carry are UNDECIDED unless
            # something else fails for them
            text, dropped = weave.strip_clauses(text, set(skip))
            self.unsafe_drops = sorted(set(q for _c, _t, q, u in dropped if u and q))
            for cid, tags, _q, _u in dropped:
                w.soft_lost.append({'desc': f'clause {cid} no longer compiles against this tree and was dropped', 'props': tags or sorted(set(p for f in w.fn_info for p in (f['props'] or []) if f['listed'] and cid.split(':')[1:2] == [f['qual']]))})
        out = os.path.join(self.scratch, 'uflow.rs')
        open(out, 'w').write(text)
        if w.lost:
            raise Undecided('lost anchors: ' + '; '.join(w.lost))
        er = weave.erase(text)
        bad = [k for k in w.originals if er.get(k) != w.originals[k]]
        if bad:
            raise Undecided('erasure self-check failed for ' + ', '.join(bad))
        self.w = w; self.woven = text; self.woven_path = out
        self.lm = weave.line_map(text)
        self.wf = weave.woven_functions(text)
        self.finfo = {(f['file'], f['qual']): f for f in w.fn_info}
        return w

    def cone(self):
        """functions (file, qual) verified for this property, and item blocks"""
        fns = [f for f in self.w.fn_info if f['listed'] and self.prop in (f['props'] or []) and f['disp'] in ('verify', 'nodecreases')]
        return fns

    def fn_at(self, line):
        best = None
        for f in self.wf:
            if f['a'] <= line <= f['b']:
                if best is None or f['a'] >= best['a']: best = f
        return best

    def run_verus(self, modules, whole=False, seed=None, rlimit=None):
        cmd = ['verus', self.woven_path, '--output-json', '--time', '--error-format=json', '--multiple-errors', '60',
               '--num-threads', '16']
        if rlimit: cmd += ['--rlimit', str(rlimit)]
        if not whole:
            vl = sorted(set(re.findall(r'pub mod (vlib\w*)', self.w.prelude)))
            for m in sorted(modules) + ['vcanary'] + vl:
                cmd += ['--verify-only-module', m] if m else ['--verify-root']
        if seed is not None:
            cmd += ['--smt-option', f'smt.random_seed={seed}']
        t = time.time()
        p = subprocess.run(cmd, cwd=self.scratch, capture_output=True, text=True, timeout=3000)
        ms = int((time.time() - t) * 1000)
        try:
            res = json.loads(p.stdout)
        except Exception:
            res = None
        diags = []
        for l in p.stderr.split('\n'):
            l = l.strip()
            if not l.startswith('{'):
                continue
            try: diags.append(json.loads(l))
            except Exception: pass
        if res is None:
            errs = [d['rendered'] for d in diags if d.get('level', '').startswith('error')]
            raise Undecided('verus produced no result: ' + (errs[0] if errs else p.stderr[-2000:]))
        return res, diags, ms, ' '.join(cmd[:1] + ['<woven>/uflow.rs'] + cmd[2:])

    def classify(self, diags, res=None):
        """-> (verification failures, other errors, resource-limit hits). `res`: Verus' JSON summary; when it shows that
        the verification stage ran (rustc errors abort before it), a message of an unknown class that points into the
        crate is a failed obligation, not a front-end error."""
        vr = (res or {}).get('verification-results') or {}
        verified_stage = bool(vr) and not vr.get('encountered-vir-error') and (vr.get('verified', 0) + vr.get('errors', 0)) > 0
        vf = []; other = []; und = []
        for d in diags:
            if d.get('level') != 'error': continue
            msg = d.get('message', '')
            if msg.startswith('aborting due to'): continue
            if any(u in msg for u in UNDECIDED_MSGS):
                und.append(d); continue
            if any(v in msg for v in VERIFICATION_MSGS) and d.get('spans'):
                vf.append(d)
            elif verified_stage and d.get('spans') and not d.get('code'):
                vf.append(d)
            else:
                other.append(d)
        return vf, other, und

    def attribute(self, d):
        """map one verification diagnostic to (key, props, description)"""
        spans = d.get('spans', [])
        prim = [s for s in spans if s.get('is_primary')] or spans
        fn = None
        for s in prim + spans:
            fn = self.fn_at(s['line_start'])
            if fn: break
        clause = None; cprops = None; cexplicit = False
        cand = prim + [s for s in spans if not s.get('is_primary') and 'failed' in (s.get('label') or '')]
        for s in cand:
            for ln in range(s['line_start'], s['line_end'] + 1):
                e = self.lm[ln] if ln < len(self.lm) else None
                if e and 'clause' in e and e['clause'] != 'prelude':
                    clause = e['clause']; cprops = e['props']; cexplicit = bool(e.get('explicit'))
                    if not e.get('explicit'):
                        # a clause written over several lines carries its `/*@p ..*/` tag on a later line of the same span
                        ex = [self.lm[k] for k in range(ln, min(s['line_end'] + 1, len(self.lm)))
                              if self.lm[k] and self.lm[k].get('clause') == clause and self.lm[k].get('explicit')]
                        if ex:
                            cprops = sorted(set(p for x in ex for p in x['props'])); cexplicit = True
                    break
            if clause: break
        where = None
        p = prim[0]
        e = self.lm[p['line_start']] if p['line_start'] < len(self.lm) else None
        srctext = (p.get('text') or [{}])[0].get('text', '').strip()
        srctext = re.sub(r'/\*@.*?\*/', '', srctext).strip()
        if e and 'file' in e:
            where = f"{e['file']}:{e['line']}"
        elif e and 'clause' in e:
            where = e['clause']
        fi = None
        if fn:
            fi = self.finfo.get((fn['file'], fn['qual'])) or self.finfo.get((fn['file'], fn['tqual']))
        fname = f"{fn['file']}::{fn['qual']}" if fn else '<item>'
        if cprops is not None and cprops and (cexplicit or not fi):
            props = cprops
        elif clause is not None and fi:
            # an untagged clause (auxiliary invariant, frame condition, proof step) supports every tagged clause of its
            # function: once it fails it is assumed, and the tagged clauses after it may then pass for the wrong reason.
            # It is therefore reported for all properties the function serves.
            props = sorted(set(cprops or []) | set(fi['props'] or []))
        elif fi and clause is None:
            # implicit safety obligation (overflow, index, unwrap, debug_assert, termination)
            props = fi.get('implicit') or (['C03'] if 'C03' in (fi['props'] or []) else (fi['props'] or []))
        elif fi:
            props = fi['props'] or []
        elif clause is not None:
            props = cprops or []
        else:
            props = []
        msg = d['message']
        ctext = ''
        if clause:
            for s in cand:
                e2 = self.lm[s['line_start']] if s['line_start'] < len(self.lm) else None
                if e2 and e2.get('clause') == clause:
                    t = (s.get('text') or [{}])[0]
                    ctext = re.sub(r'/\*@.*?\*/', '', t.get('text', '')[max(0, t.get('highlight_start', 1) - 1):]).strip()[:100]
                    break
        key = f"{fname}|{msg}|{(clause + ' ' + ctext) if clause else srctext}"
        return {'key': key, 'props': props, 'fn': fname, 'msg': msg, 'clause': clause, 'where': where,
                'src': srctext, 'rendered': d.get('rendered', '')}

    def scan_assumptions(self):
        """mechanical scan of everything that is assumed rather than proved in overlays and prelude"""
        import glob
        out = {'assume_specification': [], 'external_body_axioms': [], 'uninterp_spec_fns': [], 'assume_or_admit': [], 'site_assumptions': []}
        files = sorted(glob.glob(os.path.join(VERIF, 'contracts', '*.vspec')) + glob.glob(os.path.join(VERIF, 'verus', '*.rs')))
        for f in files:
            txt = open(f).read()
            rel = os.path.relpath(f, VERIF)
            for m in re.finditer(r'assume_specification\s*(?:<[^\[]*>)?\s*\[\s*([^\]]+?)\s*\]', txt):
                out['assume_specification'].append(re.sub(r'\s+', '', m.group(1)))
            for m in re.finditer(r'#\[verifier::external_body\]\s*(?:pub\s+)?(?:broadcast\s+)?proof fn (\w+)', txt):
                out['external_body_axioms'].append(f'{rel}:{m.group(1)}')
            for m in re.finditer(r'uninterp spec fn (\w+)', txt):
                out['uninterp_spec_fns'].append(f'{rel}:{m.group(1)}')
            for ln, line in enumerate(txt.split('\n'), 1):
                code = line.split('//')[0]
                if re.search(r'(?<![A-Za-z_])(assume|admit)\s*\(', code) and 'assume_specification' not in code:
                    if '/*@assumed closure-glue*/' in line or '/*@assumed monotonic-clock*/' in line:
                        # the two whitelisted kinds, each reported: (1) the effect of a T15-converted closure on the state it
                        # captured by &mut (invisible to Verus), stated at the exits of the converted function; (2) the reading of
                        # the monotone clock in HalfConnection::step (Instant::now() is not behind earlier readings, < 2^62 ms)
                        out.setdefault('site_assumptions', []).append(f'{rel}:{ln}: ' + code.strip()[:160])
                    else:
                        out['assume_or_admit'].append(f'{rel}:{ln}')
        return out

    def verus_unit(self):
        w = self.weave()
        scan = self.scan_assumptions()
        self.extra['assumption_scan'] = scan
        if scan['assume_or_admit']:
            raise Undecided('assume()/admit() found in the contracts: ' + ', '.join(scan['assume_or_admit']))
        cone = self.cone()
        item_mods = set()
        for rel, ov in w.overlays.items():
            for pr, _ in ov['items']:
                if self.prop in (pr or ov['props']): item_mods.add(file_to_module(rel))
        modules = set(file_to_module(f['file']) for f in cone) | item_mods
        if not modules:
            return
        whole = (self.tier == 'thorough')
        demote = set(); skip = set()
        for attempt in range(6):
            res, diags, ms, cmdline = self.run_verus(modules, whole=whole)
            vf, other, und = self.classify(diags, res)
            if not other: break
            # unsupported construct / compile error: demote offending functions outside the cone and retry
            newd = set()
            conekeys = set((f['file'], f['qual']) for f in cone)
            for d in other:
                fn = None
                for s in d.get('spans', []):
                    fn = self.fn_at(s['line_start'])
                    if fn: break
                if fn and (fn['file'], fn['qual']) not in conekeys and (fn['file'], fn['qual']) in self.finfo \
                        and self.finfo[(fn['file'], fn['qual'])]['disp'] in ('verify', 'nodecreases'):
                    newd.add((fn['file'], fn['qual']))
            if not newd or whole:
                # front-end errors located inside woven site/loop clauses: drop those clauses and retry
                bad = set()
                for d in other:
                    for sp in d.get('spans', []):
                        if not sp.get('is_primary'): continue
                        e = self.lm[sp['line_start']] if sp['line_start'] < len(self.lm) else None
                        cid = e.get('clause') if e else None
                        if cid and any(k in cid for k in weave.DROPPABLE): bad.add(cid)
                        else: bad.add(None)
                if bad and None not in bad and not (bad <= skip):
                    skip |= bad
                    self.notes.append('overlay clauses dropped after a front-end error: ' + ', '.join(sorted(bad)))
                    w = self.weave(demote=demote, skip=skip)
                    cone = self.cone()
                    continue
                raise Undecided('verus front-end error: ' + other[0].get('rendered', other[0].get('message', ''))[:1500])
            demote |= newd
            self.notes.append('demoted to external_body (front-end error outside the cone): ' + ', '.join(f"{a}::{b}" for a, b in sorted(newd)))
            w = self.weave(demote=demote, skip=skip)
            cone = self.cone()
        else:
            raise Undecided('verus front-end errors persist')
        if und:
            # a function ran out of its resource limit: no verdict. Retry once with a 15x budget (costly, only on this path);
            # functions that carry their own #[verifier::rlimit] keep it.
            self.notes.append('resource limit hit; retried with --rlimit 150: ' + und[0].get('message', '')[:120])
            res, diags, ms2, cmdline = self.run_verus(modules, whole=whole, rlimit=150)
            ms += ms2
            vf, other, und = self.classify(diags, res)
            if other:
                raise Undecided('verus front-end error on retry: ' + other[0].get('rendered', '')[:800])
            if und:
                raise Undecided('resource limit (also with --rlimit 150): ' + und[0].get('rendered', '')[:800])
        fails = [self.attribute(d) for d in vf]
        # canary
        canary = [f for f in fails if 'canary_must_fail' in f['fn'] or 'canary_must_fail' in f['rendered']]
        if not canary:
            raise Undecided('canary obligation (assert(false)) was not reported as failing: verifier run is vacuous')
        fails = [f for f in fails if f not in canary]
        # obligations from the function breakdown
        conenames = {}
        for f in cone:
            conenames.setdefault(file_to_module(f['file']), set()).add(f['qual'])
            conenames[file_to_module(f['file'])].add(f['qual'].split('::')[-1])
        failed_fns = set(f['fn'] for f in fails)
        nobl = 0
        smt = res.get('times-ms', {}).get('smt', {})
        for m in smt.get('smt-run-module-times', []):
            mod = m['module']
            for fb in m['function-breakdown']:
                name = fb['function'].split('::', 1)[1]
                rest = name[len(mod) + 2:] if mod and name.startswith(mod + '::') else name
                if mod == 'vcanary': continue
                incone = False
                if fb.get('mode:') == 'proof':
                    incone = mod in item_mods or mod in conenames or mod.startswith('vlib')
                elif fb.get('mode:') == 'exec':
                    incone = mod in conenames and (rest in conenames[mod] or rest.split('::')[-1] in conenames[mod])
                if not incone: continue
                nobl += 1
                ok = bool(fb['success'])
                if not ok:
                    # the function failed some obligation: it counts against THIS property only if one of its failed
                    # obligations is attributed to this property (clause tags / implicit-obligation rule)
                    mine = [f for f in fails if self.prop in f['props'] and f['fn'].endswith('::' + rest) and file_to_module(f['fn'].split('::')[0]) == mod]
                    others = [f for f in fails if f['fn'].endswith('::' + rest) and file_to_module(f['fn'].split('::')[0]) == mod]
                    ok = bool(others) and not mine
                self.obligations.append({'name': f"{mod}::{rest}", 'engine': 'verus/z3', 'ok': ok,
                                         'ms': round(fb['time-micros'] / 1000, 2), 'mode': fb.get('mode:')})
        for f in fails:
            if self.prop in f['props']:
                self.failures.append({'engine': 'verus', **f})
        for u in w.unclaimed_sites:
            if self.prop in u['props']:
                self.failures.append({'engine': 'weaver', 'key': f"{u['file']}|unexpected-emission-site|{u['needle']}|{u['text']}", 'props': u['props'],
                                      'fn': u['file'], 'msg': 'unexpected-emission-site: an emission site that no contract clause guards',
                                      'clause': None, 'where': f"{u['file']}:{u['line']}", 'src': u['text'], 'rendered': f"{u['file']}:{u['line']}: {u['text']}"})
        # site anchors that no longer match: their clauses were dropped. If nothing else fails for this property the
        # run cannot vouch for those sites -> UNDECIDED (a failure elsewhere is still a violation).
        # functions that are NEW in this tree (absent from known_functions.json, the reference the contracts were written
        # against) have no contract: woven as external_body their effect is unknown to Verus, so a proof failing in a
        # function that calls one is "needs a contract" (undecided), not a violation of the property.
        try:
            known = json.load(open(os.path.join(VERIF, 'known_functions.json')))
        except Exception:
            known = None
        if known is not None:
            newfns = [f for f in w.fn_info if not f['listed'] and f['qual'] not in known.get(f['file'], [])]
            if newfns:
                self.notes.append('functions not in the reference tree (no contract, effect unknown): ' + ', '.join(f"{f['file']}::{f['qual']}" for f in newfns))
                for fl in self.failures:
                    if fl.get('engine') != 'verus' or '::' not in fl.get('fn', ''): continue
                    frel, fqual = fl['fn'].split('::', 1)
                    info = next((x for x in w.fn_info if x['file'] == frel and x['qual'] == fqual), None)
                    if not info: continue
                    body = '\n'.join(w.originals.get(frel, '').split('\n')[info['line'] - 1:info['end_line']])
                    for nf in newfns:
                        nm = nf['qual'].split('::')[-1]
                        if re.search(r'(?<![A-Za-z0-9_])' + re.escape(nm) + r'\s*\(', body) and nf is not info:
                            fl['needs_contract'] = f"{nf['file']}::{nf['qual']}"
                nc = [fl for fl in self.failures if fl.get('needs_contract')]
                if nc:
                    self.failures = [fl for fl in self.failures if not fl.get('needs_contract')]
                    self.deferred_undecided.append('proof failed in ' + ', '.join(sorted(set(fl['fn'] for fl in nc)))
                                                   + ' which call(s) ' + ', '.join(sorted(set(fl['needs_contract'] for fl in nc)))
                                                   + ': new function(s) without a contract (needs contract, not a violation)')
        ud = getattr(self, 'unsafe_drops', [])
        if ud:
            hit = [fl for fl in self.failures if fl.get('engine') == 'verus' and '::' in fl.get('fn', '') and fl['fn'].split('::', 1)[1] in ud]
            if hit:
                self.failures = [fl for fl in self.failures if fl not in hit]
                self.deferred_undecided.append('proof failed in ' + ', '.join(sorted(set(fl['fn'] for fl in hit)))
                                               + ' after a loop clause / proof hint of its overlay had to be dropped (it no longer compiles against this tree): needs contract, not a violation')
        soft = [l for l in w.soft_lost if self.prop in l['props']]
        if soft:
            self.notes.append('site anchors lost (clauses dropped): ' + '; '.join(l['desc'] for l in soft))
            if not any(f['engine'] == 'verus' for f in self.failures):
                # undecided unless another unit of this property (Kani harness, native test) finds a violation
                self.deferred_undecided.append('site anchors lost: ' + '; '.join(l['desc'] for l in soft))
        if whole:
            # stability cross-check: same crate, different Z3 seed; a disagreement is UNDECIDED, not a violation
            seed2 = (self.seed or 0) + 7
            res2, diags2, ms2, _ = self.run_verus(modules, whole=True, seed=seed2)
            vf2, other2, und2 = self.classify(diags2, res2)
            if other2 or und2:
                raise Undecided('stability run (seed %d) hit a front-end error or resource limit' % seed2)
            k1 = sorted(set(f['key'] for f in fails))
            k2 = sorted(set(k['key'] for k in (self.attribute(d) for d in vf2) if 'canary_must_fail' not in k['fn'] and 'canary_must_fail' not in k['rendered']))
            if k1 != k2:
                raise Undecided(f'stability run disagrees: seed0={k1} seed{seed2}={k2}')
            self.extra['stability_run'] = {'seed': seed2, 'wall_ms': ms2, 'verified': res2['verification-results'].get('verified'), 'agrees': True}
        self.extra['verus'] = {
            'cmd': cmdline, 'wall_ms': ms, 'verified': res['verification-results'].get('verified'),
            'errors': res['verification-results'].get('errors'), 'modules': sorted(modules),
            'smt_ms': smt.get('total'), 'all_failures_in_run': [f['key'] for f in fails],
            'functions_under_contract': sorted(f"{f['file']}::{f['qual']}" for f in cone),
            'trusted_functions_with_contract': sorted(f"{f['file']}::{f['qual']}" for f in w.fn_info if f['listed'] and f['disp'] == 'trusted'),
            'transformations': w.transforms,
        }
        self.checker_cmd = cmdline

    # ------------------------------------------------------------------ decision
    def decide(self):
        kf = [k for k in self.known.get('findings', []) if k['property'] == self.prop]
        gaps = [g for g in self.gaps.get('gaps', []) if self.prop in g.get('properties', [self.prop])]
        viol = []
        for f in self.failures:
            k = next((k for k in kf if k['obligation'] == f['key']), None)
            g = next((g for g in gaps if g['obligation'] == f['key']), None)
            if k:
                print(f"KNOWN-FINDING: property={self.prop} {k['what']}")
                f['known'] = True
            elif g:
                print(f"PROOF-GAP: property={self.prop} {g['obligation']}")
                f['gap'] = True
            else:
                viol.append(f)
        return viol

    def evidence(self, viol, status):
        gapfns = set(f['fn'] for f in self.failures if f.get('gap'))
        def in_gap(o):
            return any(g.endswith('::' + o['name'].split('::', 1)[-1].split('::', 0)[0]) or g.split('::', 1)[-1].endswith(o['name'].rsplit('::', 2)[-2] + '::' + o['name'].rsplit('::', 1)[-1]) for g in gapfns)
        gap_obl = [o for o in self.obligations if o.get('kind') != 'bounded' and not o['ok'] and in_gap(o)]
        full = [o for o in self.obligations if o.get('kind') != 'bounded' and o not in gap_obl]
        nobl = len(full)
        ndis = sum(1 for o in full if o['ok'])
        nb = [o for o in self.obligations if o.get('kind') == 'bounded'] + [b for b in self.extra.get('bounded', []) if isinstance(b, dict) and b.get('name') not in set(o['name'] for o in self.obligations)]
        ev = {
            'property_id': self.prop, 'tier': self.tier, 'seed': self.seed,
            'level': ('other' if self.pc.get('level') == 'bounded' else self.pc.get('level', 'proof')),
            'coverage': {
                'obligations': nobl, 'discharged': ndis,
                'checker_cmd': getattr(self, 'checker_cmd', ''),
                'trusted_base': self.cfg['trusted_base'] + self.pc.get('trusted_base', []),
                'samples': [o for o in full[:6]] + self.samples,
                'proof_gaps': [{'function': o['name'], 'gap': [f['key'] for f in self.failures if f.get('gap')]} for o in gap_obl],
                'proof_gaps_note': 'functions with a recorded proof gap (proof_gaps.json: an implicit obligation never discharged on the reference tree, reported as PROOF-GAP on every run) are listed here and are NOT among obligations/discharged',
                'bounded_checks': len(nb), 'bounded_ok': sum(1 for o in nb if o.get('ok')),
                # full proofs whose callee contracts / needed lemmas are themselves proved only up to a bound (kani_unit)
                'rests_on_bounded': sorted(set(x for o in full for x in o.get('rests_on_bounded', []))),
                'bounded_note': 'bounded stand-ins (Kani harnesses with an unwinding/size bound, native scenario tests) are listed under `bounded` and are NOT counted in obligations/discharged',
                'obligation_unit': 'one per function or lemma: all verification conditions Verus generates for it (contract clauses, loop invariants, overflow/index/unwrap safety, termination), discharged by Z3; one per Kani harness',
                'solver_ms_total': round(sum(o.get('ms', 0) or 0 for o in full), 1),
                'by_engine': {e: sum(1 for o in full if o['engine'] == e) for e in set(o['engine'] for o in full)},
                'status': status,
                'explanation': self.pc.get('level_text', '') if self.pc.get('level') == 'bounded' else 'see level_claimed.text in MANIFEST.json',
                'source_sha256': sha_tree(REPO),
                'not_decided': self.pc.get('not_decided', []),
                'functions_not_under_contract': self.pc.get('not_under_contract', []),
                'bounded': self.extra.get('bounded', []),
                'notes': self.notes,
                **{k: v for k, v in self.extra.items() if k != 'bounded'},
            },
            'assumptions': self.cfg['assumptions'] + self.pc.get('assumptions', []) + self.assumptions,
            'wall_s': round(time.time() - self.t0, 2),
            'violations': len(viol),
        }
        edir = os.path.join(OUTDIR, 'evidence')
        os.makedirs(edir, exist_ok=True)
        json.dump(ev, open(os.path.join(edir, f'{self.prop}.json'), 'w'), indent=1)

    def replay(self, viol):
        d = os.path.join(OUTDIR, 'replays', self.prop)
        os.makedirs(d, exist_ok=True)
        n = len([x for x in os.listdir(d) if x.endswith('.json')]) + 1
        path = os.path.join(d, f'{n}.json')
        json.dump({'property': self.prop, 'source_sha256': sha_tree(REPO), 'tier': self.tier,
                   'failed_obligations': [{k: f.get(k) for k in ('engine', 'key', 'fn', 'msg', 'clause', 'where', 'src', 'rendered', 'input', 'replay_cmd', 'replay_output')} for f in viol]},
                  open(path, 'w'), indent=1)
        return path


def main():
    ap = argparse.ArgumentParser()
    ap.add_argument('prop')
    ap.add_argument('--tier', default=os.environ.get('VERIF_TIER', 'quick') or 'quick')
    ap.add_argument('--replay', default=None, help='re-check the obligations recorded in a replay file against the current tree')
    a = ap.parse_args()
    if a.tier not in ('quick', 'thorough'): a.tier = 'quick'
    seed = int(os.environ.get('VERIF_SEED', '0') or 0)
    run = Run(a.prop, a.tier, seed)
    try:
        import units
        units.run_all(run)
        viol = run.decide()
        if not viol and run.deferred_undecided:
            raise Undecided('; '.join(run.deferred_undecided))
    except Undecided as e:
        viol = []
        if not a.replay:
            try:
                import native_unit
                viol = native_unit.witness_on_undecided(run, str(e))
            except Exception as e2:
                run.notes.append(f'witness search error: {e2}')
        if not viol:
            run.evidence([], 'undecided: ' + str(e)[:300])
            print(f"UNDECIDED property={a.prop} {e}")
            sys.exit(2)
        run.notes.append('verifier undecided: ' + str(e)[:300])
        run.failures.extend(viol)
    except subprocess.TimeoutExpired as e:
        run.evidence([], 'undecided: timeout')
        print(f"UNDECIDED property={a.prop} timeout {e}")
        sys.exit(2)
    if a.replay:
        rec = json.load(open(a.replay))
        want = set(f['key'] for f in rec['failed_obligations'])
        got = set(f['key'] for f in run.failures)
        for k in sorted(want):
            print(('REPRODUCED ' if k in got else 'NOT-REPRODUCED ') + k)
        for f in rec['failed_obligations']:
            if f.get('replay_cmd'): print('native replay command:', f['replay_cmd'])
        sys.exit(1 if want & got else 0)
    if viol and not any(f.get('input') for f in viol):
        try:
            import native_unit
            native_unit.witness(run, viol)
        except Exception as e:
            run.notes.append(f'witness search error: {e}')
    if viol:
        run.evidence(viol, 'violation')
        path = run.replay(viol)
        have_input = any(f.get('input') for f in viol)
        for f in viol:
            print(f"FAILED-OBLIGATION property={a.prop} engine={f['engine']} {f['key']} @ {f.get('where')}")
        print(f"VIOLATION property={a.prop} replay={path}" + ('' if have_input else ' no-failing-input-found'))
        sys.exit(1)
    run.evidence([], 'all obligations discharged')
    ngap = sum(1 for f in run.failures if f.get('gap'))
    full = [o for o in run.obligations if o.get('kind') != 'bounded' and (o['ok'] or not ngap)]
    nobl = len(full)
    nbd = [o for o in run.obligations if o.get('kind') == 'bounded']
    # a property declared `"level": "bounded"` in props.json (e.g. C19: every Kani heap harness is bounded) is decided
    # by its bounded checks alone; for every other property zero full obligations means the run proved nothing
    bounded_only = nobl == 0 and bool(nbd) and all(o['ok'] for o in nbd) and run.pc.get('level') == 'bounded'
    if nobl == 0 and not bounded_only:
        print(f"UNDECIDED property={a.prop} zero obligations generated")
        sys.exit(2)
    print(f"OK property={a.prop} obligations={nobl} discharged={sum(1 for o in full if o['ok'])}"
          + (f" proof_gaps={ngap}" if ngap else '') + (f" bounded={sum(1 for o in nbd if o['ok'])}/{len(nbd)}" if nbd else '') + (' level=bounded-only' if bounded_only else '') + f" wall={time.time()-run.t0:.1f}s")
    sys.exit(0)


if __name__ == '__main__':
    main()
