#!/bin/bash
# usage: tools/try_patch.sh <patch.diff> <prop> [<prop>...]   — run checks against a patched scratch copy of /repo
P=$(readlink -f "$1"); shift
S=$(mktemp -d /var/tmp/uflow-try.XXXXXX)
rsync -a --exclude target --exclude .git /repo/ $S/repo/
if ! patch -p1 -s -d $S/repo -i "$P"; then echo "PATCH FAILED"; rm -rf $S; exit 3; fi
for p in "$@"; do
  UFLOW_REPO=$S/repo VERIF_NO_EVIDENCE=1 /verif/check $p | grep -E "^(OK|VIOLATION|UNDECIDED|FAILED-OBLIGATION)" | cut -c1-260
done
rm -rf $S
