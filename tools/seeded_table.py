#!/usr/bin/env python3
"""Run every seeded change against the check of the property it was written for and print a markdown table
(id | property | site | what it needs | outcome | first failing obligation).  Results are also written to
/verif/seeded/RESULTS.json.  Never touches /repo (scratch copies)."""
import os, sys, json, re, subprocess, tempfile, shutil, concurrent.futures as cf
HERE = os.path.dirname(os.path.abspath(__file__)); VERIF = os.path.dirname(HERE)


def site(patch):
    files = re.findall(r'(?m)^\+\+\+ b/(\S+)', open(patch).read())
    hunks = re.findall(r'(?m)^@@[^@]*@@ ?(.*)$', open(patch).read())
    fn = next((h for h in hunks if 'fn ' in h or 'impl' in h), hunks[0] if hunks else '')
    return ', '.join(f.replace('src/', '') for f in files), fn.strip()[:60]


def run_one(d):
    meta = json.load(open(os.path.join(VERIF, 'seeded', d, 'meta.json')))
    patch = os.path.join(VERIF, 'seeded', d, 'patch.diff')
    prop = meta['property']
    scratch = tempfile.mkdtemp(prefix='uflow-seeded.', dir='/var/tmp')
    try:
        repo = os.path.join(scratch, 'repo')
        subprocess.check_call(['rsync', '-a', '--exclude', 'target', '--exclude', '.git', '/repo/', repo + '/'])
        r = subprocess.run(['patch', '-p1', '-s', '-d', repo, '-i', patch], capture_output=True, text=True)
        if r.returncode != 0:
            return d, meta, 'PATCH-FAILED', ''
        out = os.path.join(scratch, 'out')
        env = dict(os.environ, UFLOW_REPO=repo, VERIF_NO_EVIDENCE='1')
        c = subprocess.run([os.path.join(VERIF, 'check'), prop], capture_output=True, text=True, env=env)
        lines = c.stdout.strip().split('\n')
        fo = next((l for l in lines if l.startswith('FAILED-OBLIGATION')), '')
        last = next((l for l in reversed(lines) if l.startswith(('VIOLATION', 'UNDECIDED', 'OK'))), '')
        outcome = {0: 'missed (exit 0)', 1: 'VIOLATION', 2: 'UNDECIDED'}.get(c.returncode, f'exit {c.returncode}')
        if c.returncode == 1 and 'no-failing-input-found' not in last: outcome += ' (with input)'
        m = re.match(r'FAILED-OBLIGATION property=\S+ engine=(\S+) (.*?) @ ', fo)
        ob = (m.group(1) + ': ' + m.group(2)) if m else (last[:160] if c.returncode == 2 else '')
        return d, meta, outcome, ob
    finally:
        shutil.rmtree(scratch, ignore_errors=True)


def main():
    """usage: seeded_table.py [jobs] [id-regex]   - results are merged into seeded/RESULTS.json after every finished change, so an
    interrupted run loses nothing; with an id-regex only the matching changes are (re)run."""
    ds = sorted(x for x in os.listdir(os.path.join(VERIF, 'seeded')) if os.path.exists(os.path.join(VERIF, 'seeded', x, 'meta.json')))
    jobs = int(sys.argv[1]) if len(sys.argv) > 1 else 3
    if len(sys.argv) > 2: ds = [d for d in ds if re.search(sys.argv[2], d)]
    rp = os.path.join(VERIF, 'seeded', 'RESULTS.json')
    try: res = {r['id']: r for r in json.load(open(rp))}
    except Exception: res = {}
    head = subprocess.run(['git', '-C', VERIF, 'rev-parse', '--short', 'HEAD'], capture_output=True, text=True).stdout.strip()
    with cf.ThreadPoolExecutor(jobs) as ex:
        for d, meta, outcome, ob in ex.map(run_one, ds):
            f, fn = site(os.path.join(VERIF, 'seeded', d, 'patch.diff'))
            res[d] = {'id': d, 'property': meta['property'], 'files': f, 'site': fn, 'needs': meta.get('needs_to_manifest', ''), 'outcome': outcome, 'obligation': ob, 'verif_commit': head}
            json.dump([res[k] for k in sorted(res)], open(rp, 'w'), indent=1)
            print(f"{d}: {outcome}", file=sys.stderr, flush=True)
    print('| id | property | site | needs, in order to manifest | check outcome | first failing obligation |')
    print('|----|----------|------|-----------------------------|---------------|--------------------------|')
    for r in [res[k] for k in sorted(res)]:
        ob = r['obligation'].replace('|', '¦')
        ob = re.sub(r'\s+', ' ', ob)[:150]
        print(f"| {r['id']} | {r['property']} | `{r['files']}` {r['site'].replace('|', '¦')} | {r['needs'][:140]} | {r['outcome']} | {ob} |")


if __name__ == '__main__':
    main()
