#!/usr/bin/env python3
"""WEAVE-K + Kani driver:  kani_unit.run(run, group)   (dispatched from units.py as `kani:<group>`)

Harness files live in  <verif>/kani/<group>/<name>.rs .  Format (directives are `//@` comment lines, anywhere):

    //@file  src/half_connection/send_rate.rs        source file the module text is appended to
    //@props C14 C03                                 default property tags of the harnesses of this file
    //@harness <name> props=C14,C03 kind=full|bounded|cover|canary [bound="..."] target=<fn> [tier=thorough]
    //@contract SendRateComp::update_rtt             contract attributes inserted in front of that real fn
    //| #[cfg_attr(kani, kani::requires(...))]
    //| #[cfg_attr(kani, kani::ensures(|r| ...))]
    <rust items>                                     wrapped into `#[cfg(kani)] mod kv_<group>_<name> { use super::*; .. }`

WEAVE-K: the crate is copied to the run's scratch directory; the module text is *appended* to the real source
file, the `//|` lines are inserted immediately in front of the named `fn`; nothing else changes (every insertion
is recorded in run.extra['kani'][group]['woven']).  A target fn / file that cannot be found is UNDECIDED.

Verdicts:  harness SUCCESSFUL -> obligation ok;  FAILED -> failure dict (with counterexample + native playback
when obtainable);  timeout / OOM / build error / unwinding assertion / unsupported construct / canary passing /
unreachable cover  ->  check.Undecided, never a violation.
"""
import os, sys, re, json, time, subprocess, shutil, shlex, glob

HERE = os.path.dirname(os.path.abspath(__file__))
VERIF = os.path.dirname(HERE)
sys.path.insert(0, HERE)
try:
    from check import Undecided
except Exception:                                                     # stand-alone use
    class Undecided(Exception):
        pass


def repo():
    return os.environ.get('UFLOW_REPO', '/repo')


KANI_FLAGS = ['-Z', 'function-contracts', '-Z', 'stubbing', '-Z', 'unstable-options']
GROUP_TIMEOUT_S = int(os.environ.get('KANI_GROUP_TIMEOUT', '2400'))      # whole `cargo kani` invocation
HARNESS_TIMEOUT_S = int(os.environ.get('KANI_HARNESS_TIMEOUT', '600'))  # per harness (quick tier)
PLAYBACK_TIMEOUT_S = 240
JOBS = int(os.environ.get('KANI_JOBS', '8'))


def log(*a):
    print(*a, file=sys.stderr, flush=True)


# ----------------------------------------------------------------------------------------------- parsing
def parse_kv(s):
    out = {}
    for tok in shlex.split(s):
        if '=' in tok:
            k, v = tok.split('=', 1)
            out[k] = v
        else:
            out.setdefault('_pos', []).append(tok)
    return out


class KFile:
    def __init__(self, path, group):
        self.path = path
        self.group = group
        self.name = os.path.splitext(os.path.basename(path))[0]
        self.modname = 'kv_%s_%s' % (re.sub(r'\W', '_', group), re.sub(r'\W', '_', self.name))
        self.file = None
        self.props = []
        self.harnesses = []          # dicts
        self.contracts = []          # (target, [lines])
        self.cbmc_args = []          # group-wide: passed after --cbmc-args
        self.no_native_replay = None  # reason: a native run cannot exhibit this file's failures (skip the native step)
        self.assumed = []            # contracts assumed (not proved) by this file's stubs -> run.assumptions
        self.footprints = []         # (fn, allowed `self.x` names): syntactic guard, violated => UNDECIDED
        self.kani_flags = []         # group-wide extra cargo-kani flags (e.g. -Z uninit-checks)
        body = []
        cur = None
        for ln in open(path).read().split('\n'):
            s = ln.strip()
            if s.startswith('//@file'):
                self.file = s.split()[1]; cur = None
            elif s.startswith('//@props'):
                self.props = s.split()[1:]; cur = None
            elif s.startswith('//@harness'):
                kv = parse_kv(s[len('//@harness'):])
                h = {'name': kv['_pos'][0], 'props': (kv.get('props') or ','.join(self.props)).split(','),
                     'kind': kv.get('kind', 'full'), 'bound': kv.get('bound'), 'target': kv.get('target'),
                     'tier': kv.get('tier', 'quick'), 'kfile': self,
                     'needs': [x for x in (kv.get('needs') or '').split(',') if x]}
                if h['kind'] not in ('full', 'bounded', 'cover', 'canary'):
                    raise Undecided(f'{path}: bad kind {h["kind"]}')
                if h['kind'] == 'bounded' and not h['bound']:
                    raise Undecided(f'{path}: bounded harness {h["name"]} without bound="..."')
                self.harnesses.append(h); cur = None
            elif s.startswith('//@contract'):
                cur = (s.split()[1], [])
                self.contracts.append(cur)
            elif s.startswith('//|'):
                if cur is None:
                    raise Undecided(f'{path}: `//|` line outside a //@contract block')
                cur[1].append(s[3:].strip().replace('$MOD', self.modname))
            elif s.startswith('//@no-native-replay'):
                self.no_native_replay = s[len('//@no-native-replay'):].strip() or 'disabled for this file'; cur = None
            elif s.startswith('//@assumption'):
                self.assumed.append(s[len('//@assumption'):].strip()); cur = None
            elif s.startswith('//@footprint'):
                w = s.split()
                self.footprints.append((w[1], set(w[2:]))); cur = None
            elif s.startswith('//@cbmc-args'):
                self.cbmc_args += s.split()[1:]; cur = None
            elif s.startswith('//@kani-flags'):
                self.kani_flags += s.split()[1:]; cur = None
            elif s.startswith('//@'):
                raise Undecided(f'{path}: unknown directive {s}')
            else:
                body.append(ln); cur = None if s else cur
        self.body = '\n'.join(body).strip('\n')
        if not self.file:
            raise Undecided(f'{path}: no //@file directive')
        # every declared harness must exist in the text and vice versa
        declared = set(h['name'] for h in self.harnesses)
        present = set(re.findall(r'#\[kani::proof(?:_for_contract\([^)]*\))?\]\s*(?:#\[[^\]]*\]\s*)*fn\s+(\w+)', self.body))
        if declared != present:
            raise Undecided(f'{path}: //@harness directives {sorted(declared ^ present)} do not match the #[kani::proof] fns')
        # dependency info: which contracts a harness assumes / proves
        for h in self.harnesses:
            m = re.search(r'((?:#\[[^\]]*\]\s*)+)fn\s+' + h['name'] + r'\b', self.body)
            attrs = m.group(1) if m else ''
            h['assumes'] = re.findall(r'stub_verified\(([^)]*)\)', attrs)
            pf = re.findall(r'proof_for_contract\(([^)]*)\)', attrs)
            h['proves'] = pf[0] if pf else None

    def module_path(self):
        p = self.file[len('src/'):] if self.file.startswith('src/') else self.file
        p = p[:-3] if p.endswith('.rs') else p
        parts = p.split('/')
        if parts[-1] in ('mod', 'lib'):
            parts = parts[:-1]
        return '::'.join(parts + [self.modname])


def load_group(group):
    d = os.path.join(VERIF, 'kani', group)
    files = sorted(glob.glob(os.path.join(d, '*.rs')))
    if not files:
        raise Undecided(f'no harness files in {d}')
    return [KFile(f, group) for f in files]


# ----------------------------------------------------------------------------------------------- weaving
def strip_comments_keep_layout(text):
    """blank out // and /* */ comments and string literals so that brace matching is reliable"""
    out = list(text)
    i = 0; n = len(text)
    while i < n:
        c = text[i]
        if text.startswith('//', i):
            j = text.find('\n', i)
            j = n if j < 0 else j
            for k in range(i, j): out[k] = ' '
            i = j
        elif text.startswith('/*', i):
            depth = 1; j = i + 2
            while j < n and depth:
                if text.startswith('/*', j): depth += 1; j += 2
                elif text.startswith('*/', j): depth -= 1; j += 2
                else: j += 1
            for k in range(i, j):
                if out[k] != '\n': out[k] = ' '
            i = j
        elif c == '"':
            j = i + 1
            while j < n and text[j] != '"':
                j += 2 if text[j] == '\\' else 1
            for k in range(i + 1, min(j, n)):
                if out[k] != '\n': out[k] = ' '
            i = j + 1
        elif c == "'" and i + 2 < n and (text[i + 2] == "'" or (text[i + 1] == '\\' and text.find("'", i + 2) - i <= 6)):
            j = text.find("'", i + 2 if text[i + 1] == '\\' else i + 1)
            for k in range(i + 1, j): out[k] = ' '
            i = j + 1
        else:
            i += 1
    return ''.join(out)


def match_brace(clean, open_idx):
    depth = 0
    for i in range(open_idx, len(clean)):
        if clean[i] == '{': depth += 1
        elif clean[i] == '}':
            depth -= 1
            if depth == 0: return i
    return -1


def find_fn(text, target):
    """-> character offset of the start of the line holding `fn name` for `Type::name` / `name`, or None.
    #[cfg(test)] modules are skipped."""
    clean = strip_comments_keep_layout(text)
    # blank out #[cfg(test)] mod ... { }
    for m in re.finditer(r'#\[cfg\(test\)\]\s*mod\s+\w+\s*\{', clean):
        e = match_brace(clean, m.end() - 1)
        if e > 0:
            clean = clean[:m.start()] + re.sub(r'[^\n]', ' ', clean[m.start():e + 1]) + clean[e + 1:]
    parts = target.split('::')
    lo, hi = 0, len(clean)
    spans = [(lo, hi)]
    if len(parts) == 2:
        ty = parts[0]
        spans = []
        for m in re.finditer(r'\bimpl(?:\s*<[^>{]*>)?\s+(?:[\w:<>\', ]+\s+for\s+)?' + re.escape(ty) + r'\b[^{;]*\{', clean):
            e = match_brace(clean, m.end() - 1)
            if e > 0: spans.append((m.end(), e))
    elif len(parts) != 1:
        return None
    name = parts[-1]
    hits = []
    for lo, hi in spans:
        for m in re.finditer(r'^[ \t]*(?:pub(?:\([^)]*\))?\s+)?(?:const\s+)?(?:unsafe\s+)?fn\s+' + re.escape(name) + r'\b', clean[lo:hi], re.M):
            pos = lo + m.start()
            if len(parts) == 1:
                # free function: must be at brace depth 0
                if clean[:pos].count('{') != clean[:pos].count('}'):
                    continue
            hits.append(pos)
    if len(hits) != 1:
        return None
    return hits[0]


def weave_crate(kfiles, crate):
    """apply WEAVE-K to the scratch crate; returns the insertion record"""
    record = []
    by_file = {}
    for kf in kfiles:
        by_file.setdefault(kf.file, []).append(kf)
    for rel, kfs in sorted(by_file.items()):
        p = os.path.join(crate, rel)
        if not os.path.isfile(p):
            raise Undecided(f'WEAVE-K: source file {rel} not found (needed by {kfs[0].path})')
        text = open(p).read()
        # 0. footprint guards (the harness initialises only these fields of the receiver)
        for kf in kfs:
            for target, allowed in kf.footprints:
                pos = find_fn(text, target)
                if pos is None:
                    raise Undecided(f'WEAVE-K: lost target fn {target} in {rel} (footprint guard)')
                clean = strip_comments_keep_layout(text)
                ob = clean.find('{', pos)
                cb = match_brace(clean, ob)
                used = set(re.findall(r'\bself\.\w+', clean[ob:cb]))
                if not used <= allowed:
                    raise Undecided(f'WEAVE-K: {target} now touches {sorted(used - allowed)}: the harness in {kf.path} '
                                    f'initialises only {sorted(allowed)} and must be extended')
                record.append({'file': rel, 'footprint_guard': target, 'fields': sorted(used)})
        # 1. contract attributes (insert from the bottom up so offsets stay valid)
        ins = []
        seen = set()
        for kf in kfs:
            for target, lines in kf.contracts:
                if target in seen:
                    raise Undecided(f'WEAVE-K: two contract blocks for {target} in {rel}')
                seen.add(target)
                pos = find_fn(text, target)
                if pos is None:
                    raise Undecided(f'WEAVE-K: lost target fn {target} in {rel} (not found or ambiguous)')
                ins.append((pos, target, lines, kf))
        for pos, target, lines, kf in sorted(ins, key=lambda x: -x[0]):
            line_no = text.count('\n', 0, pos) + 1
            indent = re.match(r'[ \t]*', text[pos:]).group(0)
            block = ''.join(indent + l + '\n' for l in lines)
            text = text[:pos] + block + text[pos:]
            record.append({'file': rel, 'before_fn': target, 'orig_line': line_no, 'inserted': lines,
                           'from': os.path.relpath(kf.path, VERIF)})
        # 2. appended modules
        for kf in kfs:
            start_line = text.count('\n') + 2
            mod = f'\n#[cfg(kani)]\nmod {kf.modname} {{\n    #![allow(unused_imports, dead_code, unused_variables, unused_mut)]\n    use super::*;\n{kf.body}\n}}\n'
            kf.appended_at = start_line
            text += mod
            record.append({'file': rel, 'appended_module': kf.modname, 'at_line': start_line,
                           'lines': mod.count('\n'), 'from': os.path.relpath(kf.path, VERIF)})
        open(p, 'w').write(text)
    return record


def prepare_crate(run, group, kfiles):
    base = os.path.join(run.scratch, 'kani', group)
    crate = os.path.join(base, 'crate')
    if os.path.isdir(base):
        shutil.rmtree(base)
    os.makedirs(crate)
    src = repo().rstrip('/') + '/'
    r = subprocess.run(['rsync', '-a', '--exclude', 'target', '--exclude', '.git', src, crate + '/'],
                       capture_output=True, text=True)
    if r.returncode != 0:
        raise Undecided('rsync failed: ' + r.stderr[-500:])
    if not os.path.isfile(os.path.join(crate, 'Cargo.lock')) and os.path.isfile('/repo/Cargo.lock'):
        shutil.copy('/repo/Cargo.lock', os.path.join(crate, 'Cargo.lock'))
    os.makedirs(os.path.join(crate, '.cargo'), exist_ok=True)
    open(os.path.join(crate, '.cargo', 'config.toml'), 'w').write('[net]\noffline = true\n')
    record = weave_crate(kfiles, crate)
    return crate, record


# ----------------------------------------------------------------------------------------------- running
def kani_env(tmp=None):
    e = dict(os.environ)
    if tmp:                       # CBMC leaves multi-hundred-MB external-sat*.cnf files behind when a harness is killed on
        os.makedirs(tmp, exist_ok=True)   # timeout: keep them inside the run's scratch directory, removed with it
        e['TMPDIR'] = tmp
    e['CARGO_NET_OFFLINE'] = 'true'
    e['CARGO_TERM_COLOR'] = 'never'
    return e


def fq(h):
    return h['kfile'].module_path() + '::' + h['name']


def run_kani(crate, target_dir, harnesses, harness_timeout, group_timeout, jobs, kani_flags=(), cbmc_args=()):
    cmd = ['timeout', str(group_timeout), 'cargo', 'kani'] + KANI_FLAGS + list(kani_flags) + [
        '--harness-timeout', str(harness_timeout), '--exact', '--output-format', 'terse', '--output-into-files',
        '--target-dir', target_dir, '-j', str(jobs)]
    for h in harnesses:
        cmd += ['--harness', fq(h)]
    if cbmc_args:
        cmd += ['--cbmc-args'] + list(cbmc_args)          # must be last
    outdir = os.path.join(target_dir, 'result_output_dir')
    shutil.rmtree(outdir, ignore_errors=True)
    t = time.time()
    p = subprocess.run(cmd, cwd=crate, capture_output=True, text=True, env=kani_env(os.path.join(target_dir, 'tmp')))
    wall = time.time() - t
    out = p.stdout + '\n' + p.stderr
    shown = ' '.join(shlex.quote(c) for c in cmd).replace(target_dir, '<scratch>/target')
    if p.returncode == 124:
        raise Undecided(f'kani: group run exceeded {group_timeout}s (timeout)')
    if 'Checking harness' not in out:
        m = re.search(r'^error', out, re.M)
        raise Undecided('kani: build/front-end error (no harness was started): ' + (out[m.start():m.start() + 1800] if m else out[-1500:]))
    results = {}
    for h in harnesses:
        f = os.path.join(outdir, fq(h))
        results[h['name']] = parse_result(open(f).read() if os.path.isfile(f) else '', h)
    return results, wall, shown, out


CHECK_RE = re.compile(r'^Check \d+: (?P<id>[^\n]+)\n\t - Status: (?P<st>\w+)\n\t - Description: "(?P<desc>.*?)"\n\t - Location: (?P<loc>[^\n]*)$', re.M | re.S)   # descriptions of multi-line assert!s span lines

UNDECIDED_DESCS = ['uninitialized', 'Undefined Behavior: Reading from an uninitialized',
                   'unwinding assertion', 'is not currently supported by Kani', 'not supported', 'unsupported',
                   'does not support', 'not currently supported',
                   'recursion unwinding']


def parse_result(text, h):
    r = {'raw': text, 'status': None, 'checks': 0, 'failed': [], 'covers': [], 'ms': None, 'undecided': None}
    if not text:
        r['undecided'] = 'no result file (harness not run: timeout, crash or filter mismatch)'
        return r
    m = re.search(r'VERIFICATION:- (\w+)', text)
    r['status'] = m.group(1) if m else None
    m = re.search(r'Verification Time: ([\d.]+)s', text)
    r['ms'] = round(float(m.group(1)) * 1000, 1) if m else None
    for m in CHECK_RE.finditer(text):
        r['checks'] += 1
        d = m.groupdict()
        loc = d['loc']
        lm = re.match(r'(\S+?):(\d+):(\d+) in function (.+)$', loc)
        where = f'{lm.group(1)}:{lm.group(2)}' if lm else loc
        fn = lm.group(4) if lm else None
        if d['id'].split('.')[-2:-1] == ['cover'] or 'cover condition' in d['desc'] or d['st'] in ('SATISFIED', 'UNSATISFIABLE'):
            r['covers'].append({'desc': d['desc'], 'status': d['st'], 'where': where})
        elif d['st'] == 'FAILURE':
            r['failed'].append({'desc': d['desc'].strip('"'), 'where': where, 'in_fn': fn, 'id': d['id']})
    # report clauses asserted in the harness function itself before checks located in helpers / callees
    r['failed'].sort(key=lambda f: 0 if (f.get('in_fn') or '').endswith('::' + h['name']) else 1)
    low = text.lower()
    if r['status'] is None:
        if 'timed out' in low or 'timeout' in low:
            r['undecided'] = 'harness timeout'
        elif 'out of memory' in low or 'bad_alloc' in low or 'killed' in low:
            r['undecided'] = 'out of memory'
        else:
            r['undecided'] = 'no verdict in harness output: ' + text[-300:]
    elif r['status'] == 'FAILED':
        und = [f for f in r['failed'] if any(u in f['desc'] for u in UNDECIDED_DESCS)]
        if und and len(und) == len(r['failed']):
            r['undecided'] = 'bound/unsupported: ' + und[0]['desc']
        elif not r['failed']:
            if 'timed out' in low or 'timeout' in low:
                r['undecided'] = 'harness timeout'
            elif 'out of memory' in low or 'bad_alloc' in low:
                r['undecided'] = 'out of memory'
            else:
                r['undecided'] = 'FAILED without a failed check: ' + text[-400:]
        elif und:
            # real failures next to an unwinding failure: keep only the real ones
            r['failed'] = [f for f in r['failed'] if f not in und]
    return r


def orig_location(where, kfiles, record):
    """map file:line of the woven crate back to the repo (contract lines shift the source) or to the kani file"""
    m = re.match(r'(.+):(\d+)$', where or '')
    if not m:
        return where
    rel, line = m.group(1), int(m.group(2))
    for kf in kfiles:
        if kf.file == rel and getattr(kf, 'appended_at', None) and line >= kf.appended_at:
            nxt = [k.appended_at for k in kfiles if k.file == rel and k.appended_at > kf.appended_at]
            if not nxt or line < min(nxt):
                return f'{os.path.relpath(kf.path, VERIF)} (module line {line - kf.appended_at - 3})'
    ins = sorted((r['orig_line'], len(r['inserted'])) for r in record if r.get('file') == rel and 'before_fn' in r)
    shift = 0
    for ol, n in ins:
        if line >= ol + shift + n:
            shift += n
        elif line >= ol + shift:
            return f'{rel}:{ol} (inserted contract clause #{line - ol - shift + 1})'
    return f'{rel}:{line - shift}'


def playback(crate, target_dir, h, kani_flags=(), cbmc_args=()):
    """obtain the counterexample as a unit test and replay it natively on the woven crate"""
    name = fq(h)
    base = ['cargo', 'kani'] + KANI_FLAGS + list(kani_flags) + ['-Z', 'concrete-playback', '--exact', '--harness', name,
                                             '--target-dir', target_dir, '--output-format', 'terse']
    tail = (['--cbmc-args'] + list(cbmc_args)) if cbmc_args else []
    info = {'input': None, 'replay_cmd': None, 'replay_output': None}
    body = h['kfile'].body
    m = re.search(r'((?:#\[[^\]]*\]\s*)+)fn\s+' + h['name'] + r'\b', body)
    stubbed = bool(m and 'kani::stub' in m.group(1))
    if h['kfile'].no_native_replay and 'kani::any' not in body:
        info['input'] = {'values_in_order_of_kani_any': [], 'unit_test': None}
        info['replay_output'] = 'native replay skipped: ' + h['kfile'].no_native_replay
        return info
    try:
        # counterexample extraction only (no native step follows): keep it short, trace generation over the
        # 1448-byte buffers can take minutes
        pt = 100 if h['kfile'].no_native_replay else PLAYBACK_TIMEOUT_S
        p = subprocess.run(['timeout', str(pt)] + base + ['--concrete-playback=print'] + tail, cwd=crate,
                           capture_output=True, text=True, env=kani_env())
    except Exception as e:
        info['replay_output'] = f'concrete playback generation failed: {e}'
        return info
    out = p.stdout
    m = re.search(r'(#\[test\]\s*fn kani_concrete_playback_\w+\(\)\s*\{.*?\n\}\n)', out, re.S)
    if not m:
        info['replay_output'] = 'kani printed no concrete playback test (rc=%d)' % p.returncode
        return info
    test = m.group(1)
    tname = re.search(r'fn (kani_concrete_playback_\w+)', test).group(1)
    vals = re.findall(r'^\s*//\s*(.+)$', test, re.M)
    info['input'] = {'values_in_order_of_kani_any': vals, 'unit_test': test}
    # append the test to the harness module (what --concrete-playback=inplace does) and run it natively
    kf = h['kfile']
    if kf.no_native_replay:
        info['replay_output'] = 'native replay skipped: ' + kf.no_native_replay
        return info
    src = os.path.join(crate, kf.file)
    text = open(src).read()
    key = f'mod {kf.modname} {{'
    if key not in text:
        return info
    idx = text.rfind('}')   # closing brace of the last appended module: put a dedicated playback module after it
    text += f'\n#[cfg(kani)]\nmod {kf.modname}_playback_{h["name"]} {{\n    use super::*;\n    use super::{kf.modname}::*;\n' + \
            '\n'.join('    ' + l for l in test.split('\n')) + '\n}\n'
    # the harness fn must be reachable from the sibling module
    text = re.sub(r'(\n\s*)fn ' + h['name'] + r'\(\)', r'\1pub(super) fn ' + h['name'] + '()', text, count=1)
    open(src, 'w').write(text)
    cmd = ['cargo', 'kani', 'playback', '-Z', 'concrete-playback', '--', tname]
    info['replay_cmd'] = 'UFLOW woven crate: ' + ' '.join(cmd)
    try:
        q = subprocess.run(['timeout', str(PLAYBACK_TIMEOUT_S)] + cmd, cwd=crate, capture_output=True, text=True,
                           env=dict(kani_env(), RUST_BACKTRACE='1', CARGO_TARGET_DIR=os.path.join(target_dir, 'playback')))
        o = (q.stdout + '\n' + q.stderr)
        keep = [l for l in o.split('\n') if not l.startswith('warning') and l.strip()]
        # keep the interesting tail: test output, panic message, backtrace through the crate
        i0 = next((i for i, l in enumerate(keep) if l.startswith('running ')), 0)
        info['replay_output'] = ('[note: this harness uses #[kani::stub]/stub_verified; stubs are NOT applied in a native playback, '
                                 'so the native run executes the real callees and may diverge from the counterexample]\n' if stubbed else '') + \
                                '\n'.join(keep[i0:i0 + 60])[:6000] + f'\n[exit {q.returncode}]'
    except Exception as e:
        info['replay_output'] = f'native playback failed to run: {e}'
    return info


def syntactic_audit(crate):
    """C19 side condition (reported, not proof): unsafe/forget inventory of the crate's src/"""
    inv = {'unsafe': [], 'mem::forget': [], 'Box::leak': [], 'ManuallyDrop': [], 'from_raw': []}
    for d, _, fs in os.walk(os.path.join(crate, 'src')):
        for f in fs:
            if not f.endswith('.rs'): continue
            p = os.path.join(d, f)
            text = open(p).read()
            cut = text.find('#[cfg(kani)]')
            text = text if cut < 0 else text[:cut]
            clean = strip_comments_keep_layout(text)
            for i, l in enumerate(clean.split('\n'), 1):
                for k in inv:
                    if re.search(r'\b' + re.escape(k) + r'\b', l):
                        inv[k].append(f'{os.path.relpath(p, crate)}:{i}')
    return inv


def run(run, group):
    # `group@Cxx`: only the harnesses of the group that carry property Cxx, closed under `needs` and under the
    # proof_for_contract harnesses of the contracts they assume, plus the group's canary and cover harnesses
    group, _, pfilter = group.partition('@')
    kfiles = load_group(group)
    tier = getattr(run, 'tier', 'quick')
    prop = getattr(run, 'prop', None)
    only = getattr(run, 'kani_only', None)
    # tier=off: kept in the file as documentation of an attempt that gives no verdict; never run
    hs = [h for kf in kfiles for h in kf.harnesses if h['tier'] != 'off' and (tier == 'thorough' or h['tier'] != 'thorough')]
    if only:
        hs = [h for h in hs if h['name'] in only]
    if pfilter:
        byname = {h['name']: h for h in hs}
        provers = {}
        for h in hs:
            if h['proves']: provers.setdefault(h['proves'].split('::')[-1], []).append(h['name'])
        keep = set(h['name'] for h in hs if pfilter in h['props'] or h['kind'] in ('canary', 'cover'))
        work = list(keep)
        while work:
            h = byname.get(work.pop())
            if not h: continue
            dep = list(h['needs']) + [n for a in h['assumes'] for n in provers.get(a.split('::')[-1], [])]
            for d in dep:
                if d in byname and d not in keep:
                    keep.add(d); work.append(d)
        hs = [h for h in hs if h['name'] in keep]
    names = [h['name'] for h in hs]
    if len(set(names)) != len(names):
        raise Undecided(f'kani:{group}: duplicate harness names')
    if not any(h['kind'] == 'canary' for h in hs) and not only:
        raise Undecided(f'kani:{group}: the group has no canary harness')
    # modular soundness: every assumed contract must be proved by a harness of this run
    proved = {}
    for h in hs:
        if h['proves']: proved.setdefault(h['proves'].split('::')[-1], []).append(h)
    for h in hs:
        for nd in h['needs']:
            if nd not in names and not only:
                raise Undecided(f'kani:{group}: {h["name"]} needs harness {nd}, which does not run in this tier')
        for a in h['assumes']:
            if a.split('::')[-1] not in proved and not only:
                raise Undecided(f'kani:{group}: {h["name"]} assumes the contract of {a} but no proof_for_contract harness for it runs in this tier')
    crate, record = prepare_crate(run, group, kfiles)
    target_dir = os.path.join(run.scratch, 'kani', 'target')
    for r in record:
        if 'footprint_guard' in r:
            log(f"WEAVE-K {r['file']}: footprint of {r['footprint_guard']} = {r['fields']} (guard ok)")
        elif 'before_fn' in r:
            log(f"WEAVE-K {r['file']}:{r['orig_line']} before fn {r['before_fn']}: +{len(r['inserted'])} attribute line(s)")
        else:
            log(f"WEAVE-K {r['file']}: appended mod {r['appended_module']} ({r['lines']} lines) at line {r['at_line']}")
    ht = HARNESS_TIMEOUT_S * (4 if tier == 'thorough' else 1)
    gt = GROUP_TIMEOUT_S * (4 if tier == 'thorough' else 1)
    kflags = [f for kf in kfiles for f in kf.kani_flags]
    cargs = [f for kf in kfiles for f in kf.cbmc_args]
    results, wall, shown, rawout = run_kani(crate, target_dir, hs, ht, gt, JOBS, kflags, cargs)
    ex = run.extra.setdefault('kani', {})
    gx = ex[group] = {'cmd': shown, 'wall_s': round(wall, 1), 'woven': record, 'harnesses': {}, 'canary': None, 'covers': []}
    if not getattr(run, 'checker_cmd', ''):
        run.checker_cmd = shown
    if group == 'heap':
        gx['syntactic_audit (reported, not proof)'] = syntactic_audit(crate)
    und = []
    fails = []
    for h in hs:
        r = results[h['name']]
        gx['harnesses'][h['name']] = {'kind': h['kind'], 'status': r['status'], 'ms': r['ms'], 'checks': r['checks'],
                                      'props': h['props'], 'target': h['target'], 'assumes': h['assumes'], 'proves': h['proves']}
        log(f"KANI {group}:{h['name']:<40} {r['status'] or 'NO-VERDICT':<11} {r['ms']} ms  checks={r['checks']}" +
            (f"  UNDECIDED({r['undecided']})" if r['undecided'] else ''))
        if h['kind'] == 'canary':
            if r['status'] == 'SUCCESSFUL':
                raise Undecided(f'kani:{group}: canary harness {h["name"]} passed: the verifier run is vacuous')
            if r['status'] != 'FAILED' or not r['failed']:
                raise Undecided(f'kani:{group}: canary harness {h["name"]} gave no verdict ({r["undecided"]})')
            bad = [c for c in r['covers'] if c['status'] != 'SATISFIED']
            if bad:
                raise Undecided(f'kani:{group}: canary cover not reachable: {bad[0]["desc"]}')
            gx['canary'] = {'harness': h['name'], 'failed_as_expected': r['failed'][0]['desc']}
            continue
        if r['undecided']:
            und.append(f"{h['name']}: {r['undecided']}")
            continue
        if h['kind'] == 'cover':
            bad = [c for c in r['covers'] if c['status'] != 'SATISFIED']
            gx['covers'] += [{'harness': h['name'], **c} for c in r['covers']]
            if bad or not r['covers']:
                raise Undecided(f'kani:{group}: vacuity: cover {bad[0]["desc"] if bad else "(none found)"} in {h["name"]} is not satisfiable')
            if r['status'] != 'SUCCESSFUL':
                fails.append((h, r))
            continue
        ok = r['status'] == 'SUCCESSFUL'
        # a harness that contains cover! statements must reach them all
        bad = [c for c in r['covers'] if c['status'] != 'SATISFIED']
        if bad:
            raise Undecided(f'kani:{group}: vacuity: cover "{bad[0]["desc"]}" in {h["name"]} is not satisfiable')
        ob = {'name': 'kani:' + h['name'], 'engine': 'kani/cbmc', 'ok': ok, 'ms': r['ms'] or 0.0, 'kind': h['kind'],
              'checks': r['checks'], 'props': h['props'], 'target': h['target']}
        if h['kind'] == 'bounded':
            ob['bound'] = h['bound']
            run.extra.setdefault('bounded', []).append({'name': 'kani:' + h['name'], 'bound': h['bound'], 'ok': ok,
                                                        'target': h['target'], 'props': h['props']})
        # transitive users of a proved contract inherit its failure
        eff = set(h['props'])
        frontier = [h]
        seen = set()
        while frontier:
            x = frontier.pop()
            if x['name'] in seen: continue
            seen.add(x['name'])
            eff |= set(x['props'])
            for u in hs:
                uses = u['name'] != x['name'] and (x['name'] in u['needs'] or
                        (x['proves'] and any(a.split('::')[-1] == x['proves'].split('::')[-1] for a in u['assumes'])))
                if uses: frontier.append(u)
        ob['props_effective'] = sorted(eff)
        # a full proof that rests on a contract proved only up to a bound inherits that bound
        rests = set()
        stack = [h]; seen2 = set()
        while stack:
            x = stack.pop()
            if x['name'] in seen2: continue
            seen2.add(x['name'])
            for d in hs:
                dep = d['name'] in x['needs'] or (d['proves'] and any(a.split('::')[-1] == d['proves'].split('::')[-1] for a in x['assumes']))
                if dep and d['name'] != x['name']:
                    if d['kind'] == 'bounded': rests.add(d['name'])
                    stack.append(d)
        if rests: ob['rests_on_bounded'] = sorted(rests)
        if prop is None or prop in eff:
            run.obligations.append(ob)
        if not ok:
            fails.append((h, r, sorted(eff)))
    if und:
        raise Undecided(f'kani:{group}: ' + '; '.join(und))
    for item in fails:
        h, r = item[0], item[1]
        eff = item[2] if len(item) > 2 else h['props']
        first = r['failed'][0]
        if prop is not None and prop not in eff:
            gx.setdefault('failures_of_other_properties', []).append({'harness': h['name'], 'props': eff, 'first': first['desc']})
            continue
        pb = playback(crate, target_dir, h, kflags, cargs)
        where = orig_location(first['where'], kfiles, record)
        excerpt = r['raw'][r['raw'].find('SUMMARY:'):][:3000] if 'SUMMARY:' in r['raw'] else r['raw'][-3000:]
        run.failures.append({
            'engine': 'kani', 'key': f"kani:{h['name']}|{first['desc']}", 'props': eff, 'fn': h['target'],
            'msg': first['desc'], 'clause': None, 'where': where, 'src': '',
            'rendered': excerpt, 'all_failed_checks': [{'desc': f['desc'], 'where': orig_location(f['where'], kfiles, record)} for f in r['failed']],
            'input': pb['input'], 'replay_cmd': pb['replay_cmd'], 'replay_output': pb['replay_output']})
    for kf in kfiles:
        for s in kf.assumed:
            run.assumptions.append(f'kani:{group} ({os.path.basename(kf.path)}): {s}')
    run.assumptions.append(
        f'kani:{group}: harnesses see the real function bodies of the woven scratch copy; contracts assumed through '
        f'stub_verified are each proved by a proof_for_contract harness of the same run (checked by Kani and by the driver)')
    return gx


# ----------------------------------------------------------------------------------------------- stand-alone
class _FakeRun:
    def __init__(self, prop, tier):
        import tempfile, atexit
        self.prop = prop; self.tier = tier
        self.scratch = tempfile.mkdtemp(prefix='uflow-kani.', dir='/var/tmp')
        self.obligations = []; self.failures = []; self.extra = {}; self.assumptions = []; self.notes = []
        self.keep = False
        atexit.register(lambda: None if self.keep else shutil.rmtree(self.scratch, ignore_errors=True))


if __name__ == '__main__':
    import argparse
    ap = argparse.ArgumentParser()
    ap.add_argument('group')
    ap.add_argument('--prop', default=None)
    ap.add_argument('--tier', default='quick')
    ap.add_argument('--only', default=None, help='comma separated harness names')
    ap.add_argument('--keep', action='store_true')
    ap.add_argument('--json', action='store_true')
    a = ap.parse_args()
    fr = _FakeRun(a.prop, a.tier)
    fr.keep = a.keep
    if a.only: fr.kani_only = a.only.split(',')
    t0 = time.time()
    try:
        run(fr, a.group)
    except Undecided as e:
        print('UNDECIDED', e)
        if a.keep: print('scratch:', fr.scratch)
        sys.exit(2)
    if a.keep: print('scratch:', fr.scratch)
    if a.json:
        print(json.dumps({'obligations': fr.obligations, 'failures': fr.failures, 'extra': fr.extra}, indent=1))
    full = [o for o in fr.obligations if o['kind'] == 'full']
    bnd = [o for o in fr.obligations if o['kind'] == 'bounded']
    print(f"kani:{a.group} wall={time.time()-t0:.1f}s full={sum(o['ok'] for o in full)}/{len(full)} bounded={sum(o['ok'] for o in bnd)}/{len(bnd)} failures={len(fr.failures)}")
    for f in fr.failures:
        print('FAILED', f['key'], '@', f['where'])
        if f.get('input'): print('   input:', f['input']['values_in_order_of_kani_any'])
        if f.get('replay_output'): print('   replay:', f['replay_output'].replace('\n', '\n      ')[:1500])
    sys.exit(1 if fr.failures else 0)
