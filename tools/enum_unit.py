"""ENUM units (level "enumeration"): exhaustive finite checks run against the real code of the tree under check.

  enum:crc_hd   Hamming distance >= 5 of the frame CRC for every frame of at most MAX_FRAME_SIZE bytes.
                enum/crc_hd.rs is compiled (plain `rustc -O`, no cargo) with `include!` of the REAL
                <repo>/src/frame/serial/crc.rs; all bit columns of a MAX_FRAME_SIZE-byte frame are computed through the
                real `compute`, then: all non-zero, pairwise distinct, no pair-XOR equals a column, no two pairs share
                a XOR. MAX_FRAME_SIZE is parsed from <repo>/src/lib.rs (INTERNET_MTU - UDP_HEADER_SIZE).

Interface (called by tools/units.py): run(run, name) appends to run.obligations / run.failures and records what was
enumerated in run.extra['enumerated'].
"""
import os, re, sys, time, subprocess

HERE = os.path.dirname(os.path.abspath(__file__))
VERIF = os.path.dirname(HERE)


def _undecided(msg):
    main = sys.modules.get('__main__')
    exc = getattr(main, 'Undecided', None)
    if exc is None:
        try:
            import check
            exc = check.Undecided
        except Exception:
            exc = RuntimeError
    raise exc(msg)


def _repo():
    main = sys.modules.get('__main__')
    return getattr(main, 'REPO', None) or os.environ.get('UFLOW_REPO', '/repo')


def parse_max_frame_size(repo):
    """MAX_FRAME_SIZE from the real lib.rs: `pub const MAX_FRAME_SIZE: usize = INTERNET_MTU - UDP_HEADER_SIZE;`"""
    src = open(os.path.join(repo, 'src', 'lib.rs')).read()
    consts = {}
    for m in re.finditer(r'(?m)^\s*(?:pub(?:\([a-z]+\))?\s+)?const\s+([A-Z_0-9]+)\s*:\s*usize\s*=\s*([^;]+);', src):
        consts[m.group(1)] = m.group(2).strip()

    def ev(name, depth=0):
        if depth > 8 or name not in consts:
            raise KeyError(name)
        expr = consts[name]
        if not re.fullmatch(r'[A-Z_0-9a-z \t+\-*()]+', expr):
            raise KeyError(name)
        toks = re.findall(r'[A-Z_][A-Z_0-9]*|\d[\d_]*|[+\-*()]', expr)
        out = []
        for t in toks:
            if re.fullmatch(r'[A-Z_][A-Z_0-9]*', t): out.append(str(ev(t, depth + 1)))
            elif t[0].isdigit(): out.append(t.replace('_', ''))
            else: out.append(t)
        return int(eval(' '.join(out), {'__builtins__': {}}, {}))
    try:
        return ev('MAX_FRAME_SIZE'), consts.get('MAX_FRAME_SIZE')
    except Exception as e:
        _undecided(f'enum:crc_hd cannot evaluate MAX_FRAME_SIZE from {repo}/src/lib.rs ({e!r})')


def run_crc_hd(run):
    repo = _repo()
    crc_rs = os.path.join(repo, 'src', 'frame', 'serial', 'crc.rs')
    if not os.path.exists(crc_rs):
        _undecided(f'enum:crc_hd: {crc_rs} not found')
    frame_len, expr = parse_max_frame_size(repo)
    src = os.path.join(VERIF, 'enum', 'crc_hd.rs')
    scratch = getattr(run, 'scratch', None) or '/var/tmp'
    exe = os.path.join(scratch, 'crc_hd')
    t = time.time()
    env = dict(os.environ, UFLOW_CRC_RS=os.path.abspath(crc_rs))
    cmd = ['rustc', '-O', '--edition', '2018', '-A', 'warnings', '-o', exe, src]
    p = subprocess.run(cmd, capture_output=True, text=True, env=env, cwd=scratch, timeout=600)
    build_ms = (time.time() - t) * 1000
    if p.returncode != 0:
        _undecided('enum:crc_hd: rustc failed on the real crc.rs: ' + p.stderr[-800:])
    t = time.time()
    p = subprocess.run([exe, str(frame_len)], capture_output=True, text=True, timeout=1200)
    ms = (time.time() - t) * 1000
    line = (p.stdout.strip().split('\n') or [''])[-1]
    cmdline = f"UFLOW_CRC_RS=<repo>/src/frame/serial/crc.rs rustc -O --edition 2018 enum/crc_hd.rs && crc_hd {frame_len}"
    rec = {'unit': 'enum:crc_hd', 'cmd': cmdline, 'frame_len_bytes': frame_len, 'frame_len_source': f'src/lib.rs: MAX_FRAME_SIZE = {expr}',
           'bit_positions': frame_len * 8, 'build_ms': round(build_ms, 1), 'run_ms': round(ms, 1), 'output': line,
           'claim': 'no error pattern of 1..4 flipped bits in a CRC-valid frame of at most MAX_FRAME_SIZE bytes is CRC-valid',
           'relies_on': 'affinity of compute over GF(2) (Verus: frame::serial::crc::lemma_compute_affine)'}
    run.extra.setdefault('enumerated', []).append(rec)
    names = ['weight-1 (every column non-zero)', 'weight-2 (columns pairwise distinct)',
             'weight-3 (no pair XOR equals a column)', 'weight-4 (no two pairs share a XOR)',
             'shorter frames (every length, byte and bit: the column depends only on the distance from the end)']
    if p.returncode == 0 and line.startswith('OK '):
        m = re.search(r'columns=(\d+) pairs=(\d+) shift_checked=(\d+)', line)
        if not m or int(m.group(1)) != frame_len * 8:
            _undecided('enum:crc_hd: unexpected enumerator output: ' + line)
        rec['columns'] = int(m.group(1)); rec['pair_xors'] = int(m.group(2)); rec['shift_checks'] = int(m.group(3))
        for n in names:
            run.obligations.append({'name': 'enum:crc_hd/' + n, 'engine': 'enum/rustc', 'ok': True, 'ms': round(ms / len(names), 2)})
        return
    if p.returncode == 1 and line.startswith('FAIL'):
        mw = re.search(r'weight=(\d+) bits=([\d,]+) recheck=(\w+)', line)
        if mw:
            w = int(mw.group(1)); bits = [int(x) for x in mw.group(2).split(',')]
            failing = names[w - 1]
            inp = {'frame_len_bytes': frame_len, 'flipped_bit_positions': bits,
                   'as_byte_bit': [[b // 8, b % 8] for b in bits],
                   'how_to_replay': 'take any CRC-valid frame of frame_len_bytes (e.g. all-zero data + its CRC), flip these bits '
                                    '(position = byte_index*8 + bit, LSB = 0): the result is still CRC-valid',
                   'rechecked_by_enumerator': mw.group(3) == 'true'}
            msg = f'{w}-bit error pattern leaves a {frame_len}-byte frame CRC-valid'
        else:
            failing = names[4]; bits = None
            inp = {'frame_len_bytes': frame_len, 'detail': line}
            msg = 'CRC columns are not shift-invariant: ' + line
        for n in names:
            run.obligations.append({'name': 'enum:crc_hd/' + n, 'engine': 'enum/rustc', 'ok': n != failing, 'ms': round(ms / len(names), 2)})
        run.failures.append({'engine': 'enum', 'key': f'enum:crc_hd|{failing}', 'props': ['C16'],
                             'fn': 'src/frame/serial/crc.rs::compute', 'msg': msg, 'clause': None,
                             'where': 'src/frame/serial/crc.rs', 'src': '', 'rendered': line, 'input': inp})
        return
    _undecided(f'enum:crc_hd: enumerator exited with {p.returncode}: {(p.stdout + p.stderr)[-600:]}')


def run(run, name):
    if name == 'crc_hd':
        return run_crc_hd(run)
    raise ValueError('unknown enum unit ' + name)
