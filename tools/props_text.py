#!/usr/bin/env python3
"""Texts of the claims (level_text / level_note / not_decided / not_under_contract) per property -> props.json."""
import json, os
VERIF = os.path.dirname(os.path.dirname(os.path.abspath(__file__)))
c = json.load(open(os.path.join(VERIF, 'props.json')))
P = c['properties']
COMMON = ("Trusted: Verus 0.2026.09.13 + bundled Z3, rustc; the weaver (tools/weave.py: the verified text is /repo's own token stream plus marked additions; "
          "erasure self-check before every run; declared rewrites T1-T17); std contracts in verus/prelude*.rs (assume_specification for std functions); "
          "the RefCell stand-in (contents havocked at each borrow, only cell_inv/cell_const kept: assumes every mutation through a RefMut restores them); "
          "64-bit target (global size_of usize == 8); machine arithmetic, dev profile (overflow checks and debug_assert! are obligations). ")

def setp(pid, text, note, nd=None, nuc=None, technique=None, units=None, thorough=None, design=None):
    p = P[pid]; p['claimed'] = True; p['level'] = 'proof'
    p['level_text'] = text; p['level_note'] = COMMON + note
    p['not_decided'] = nd or []; p['not_under_contract'] = nuc or []
    if technique: p['technique'] = technique
    if units is not None: p['units'] = units
    if thorough is not None: p['thorough_units'] = thorough
    p['design_ref'] = design or f'DESIGN.md section 5 ({pid}) and section 10'

T = 'contract-based deductive verification: Verus contracts woven into the real source on every run'

setp('C01',
 "Unbounded Verus proof, on the woven real source, of every mechanism the property's anchors name: 20-bit id algebra (packet_id::add/sub/is_valid == arithmetic mod 2^20); frame receive window (an accepted frame id is outside the window afterwards, the base never moves backwards: duplicates and overtaken frames never reach the packet layer); handle_datagram rejects invalid / out-of-window / already-surpassed ids without touching any state and otherwise touches one slot only; assembly slot yields a packet at most once between two clears; delivery site in receive(): the payload handed to the sink is the one stored for this id, ids strictly increase along the loop, the channel base moves to id+1 and the data flag is cleared; the window never advances past a packet that awaits delivery (D16); advance_window clears exactly [old base, new base); decoder range facts (sequence_id < 2^20, channel < 64) and encoder/decoder agreement for datagrams (byte/channel exactness, shared with C16); per-frame datagram count and the id-space inequality. A contract verifier cannot state the composition of these mechanisms across two endpoints and a faulty network; that argument stays on paper (DESIGN section 5, C01).",
 "PacketReceiver::new, AssemblyWindow::new, PacketSender::new are trusted constructor contracts (T9: closures with `_` parameters; pinned bodies, native test for AssemblyWindow::new).",
 nd=["composition of the mechanisms over all loss/dup/reorder schedules and across wrap-around into 'a subsequence of what was submitted' (two-endpoint invariant; paper argument only)"],
 nuc=["HalfConnection::emit_data_frames / emit_ack_frames / step (closures capturing &mut: rejected by Verus; pinned, trusted frame contracts)"], technique=T)

setp('C02',
 "Safety half only. Unbounded Verus proof of: delivery-site and window-advance-site conditions in PacketReceiver::receive (a packet is delivered / the window passes it only if its channel / window parent lead says the Reliable parent is already behind the channel base / the new base); resynchronize never skips an entry that awaits delivery and ignores ids it cannot reach; sender side: parent leads are the distance to the recorded Reliable parent, parents are set iff the mode is Reliable and cleared exactly when the base passes them, emitted leads satisfy the receiver's validity rule; emit_sync_frame offers next_packet_id only when resend queue and pending queue are empty; is_send_pending is exactly the three-queue disjunction; quiescence lemma (base == next and empty queue => send_buffer_size 0).",
 "Constructors trusted as in C01.",
 nd=["'eventually delivered exactly once within bounded time' (liveness under a fair network; no contract can state it)", "'latest Reliable on that channel' as a history statement (WindowEntry stores no send mode; proved: the recorded parent becomes seq iff mode is Reliable)"],
 nuc=["the closure literals inside emit_ack_frames / emit_data_frames (T15: pinned text, their effect on the captured budget is a reported site assumption)"], technique=T)

setp('C03',
 "Total correctness (no panic, no overflow, every index/slice/shift/unwrap in bounds, every debug_assert!, every loop with a `decreases`) of every function under contract on the paths bytes -> Frame::read -> client/server handle_frame -> HalfConnection handlers -> frame ack queue / packet receiver / assembly window / fragment buffer, ack frame -> frame queue (acknowledge_group, window advance, log culling, reorder buffer, loss-interval integer code) -> packet sender acknowledge; sync frame -> resynchronize; send/step/flush glue that Verus accepts (emit_frames, emit_sync_frame, both frame emitters, builders); client and server state machines. All handler contracts are quantified over ALL field values of CRC-valid frames; the only value ranges assumed are the ones the decoder's postcondition establishes. One proof gap is reported on every run (PROOF-GAP line, counted as undischarged): the ack-byte accumulator bound in the client's socket loop (usage assumption < 2^62 bytes acknowledged per step()). The TFRC float path (handle_feedback, nofeedback_expired, step, update_rtt/rto) is decided by the Kani unit kani:floats (panic/overflow freedom for all feedback values in the stated domain); RecvRateSet (integer code) by Verus for every set size.",
 "Configuration preconditions (reported, not checked): now_ms <= 2^62, active_timeout_ms <= 2^62, max_receive_alloc + 1448 + 94896128 <= usize::MAX, max_packet_size <= MAX_PACKET_SIZE, process runs < 2^62 ms. Socket loops (`while let Ok(..) = socket.recv(..)`) carry no termination measure (the socket drives them).",
 nd=["termination of the two socket receive loops (bounded by the OS queue, not by the code)", "termination of the float bisection eval_tcp_throughput_inv (argued, D5)", "LossIntervalQueue::compute_loss_rate and FeedbackGen::get_feedback (f64, not under contract)"],
 nuc=["the three closure literals of HalfConnection::emit_ack_frames, emit_data_frames, step (T15: pinned text, trusted contract; the functions themselves are verified)", "send_rate.rs float functions, LossIntervalQueue::compute_loss_rate/reset, FeedbackGen::get_feedback, fill_flush_alloc — f64: forced external_body, pinned frame contracts (arithmetic: Kani where listed)", "RecvRateSet::max (iterator adapter) and loss_increase_update (iter_mut + f64) — trusted, pinned, bounded Kani harness", "FrameLog::push, FrameLog::drain, FeedbackGen::notify_ack/notify_advancement (closure / generic RangeBounds) — trusted with the preconditions that make their unwraps safe, proved at every call site", "the socket-opening statements of Client::connect (T17: hoisted, pinned), Server::bind*, the `impl Iterator` wrappers of step(), now_ms (Instant)"],
 technique=T, thorough=['native:C03'])

setp('C04',
 "Unbounded Verus proof of: PendingPacket::new fragment count (max(ceil(len/1448),1)) and datagram(i) slice == data[i*1448 .. min((i+1)*1448, len)] with the concatenation lemma; both frame emitters and the sync path never hand more than 1472 bytes to the sink (the bound is the sink's and the callback's precondition, discharged at the single call site of each); encoded_size == bytes add() appends (the size prediction the emitter packs frames with); FragmentBuffer first-write-wins, exact byte placement, counters, finalize == buffer[..total_size] == concatenation of the fragments, for any order/repetition of writes (trace lemmas); AssemblyWindow::try_add slot-by-slot case contract incl. 'any of the four header fields differs => nothing changes' and 'all other slots unchanged'; datagram_is_valid == its spec.",
 "AssemblyWindow::new trusted (pinned, native test).",
 nd=["composition over several flushes as one history statement (the per-call facts are proved: every fragment of an emitted packet is queued exactly once and in order, a fragment leaves the pending queue only into a frame, a sync frame announces a packet id only when nothing is pending)"],
 nuc=["HalfConnection::emit_data_frames (pinned)"], technique=T)

setp('C06',
 "Unbounded Verus proof of the representation invariants: AssemblyWindow alloc == sum of slot allocations <= max_alloc == ceil(limit/1448)*1448, over-limit packets become data-less Closed(0) placeholders, clear() subtracts exactly the slot's value, lemma held-bytes <= max_alloc; PacketReceiver array lengths never change; pending acknowledgement groups <= 256 (D12); sender: alloc == sum of slot alloc_size <= max_alloc, emit_packet returns None rather than exceed window or allocation, alloc_size == fragment-rounded size (sender half of the agreement lemma); handshake mapping tx_alloc_limit == peer's max_receive_alloc on both sides and sender max_alloc == that limit rounded up.",
 "Constructors trusted (T9).",
 nd=["real heap bytes (allocator overhead, Vec capacity)", "the two-endpoint composition (receiver's sum over its window <= sender's alloc): the agreement lemma lemma_c06_alloc_agreement shows both sides book the same amount per packet and round the limit identically; the window correspondence itself is the C01 paper argument"],
 technique=T, thorough=['native:C06'])

setp('C07',
 "Unbounded Verus proof on both endpoints: client — Connect is appended exactly when Pending and the SYN-ACK echoes the local nonce (and the advertised receive allocation covers max_packet_size, D17: else Error(Config)), a mismatching / duplicate / late SYN-ACK or error frame changes nothing, the half-connection Config built at that site equals the nonce/limit mapping; server — the Connect push and the Active assignment are guarded by 'observed Pending and nonce_ack == the nonce generated at SYN time' (cell_const), SYN handling mirrors Version / ServerFull / Config refusals in order with the matching reply value, an already tracked address changes nothing and sends nothing, exactly one Pending insert per accepted SYN, Config == server_hc_config_for(..) at the site; pure lemma lemma_c07_agreement: for any nonces and advertised limits the two mappings agree crosswise (frame and packet base ids, windows, alloc limits, bandwidth bounded by the peer's advertisement and the local ceiling).",
 "Server state lives behind Rc<RefCell<..>>: facts are site assertions over the value observed at the borrow (DESIGN 2.1).",
 nd=["'queued sends forwarded in order' (no send log)"], technique=T)

setp('C08',
 "Unbounded Verus proof: client — every state/event method ensures step_ok (events_out only grows; appended events and state change satisfy wf_step over the real State enum), whole step() emits a legal piece of Connect? Receive* (Disconnect|Error)?, pure trace theorems by induction over any sequence of steps; PacketSink has a relational contract (rel reflexive/transitive, send ensures rel), PacketReceiver::receive and HalfConnection::receive are PROVED to establish it, so 'only Receive events' during a drain is proved, not assumed; server — the same relation as site assertions at all 11 event pushes and 10 state assignments (every such site must be claimed: an unclaimed new site fails `unexpected-emission-site`), removal from the map only after Fin, every Fin assignment is followed by the removal (ghost set).",
 "Server facts are site assertions (RefCell havoc model).",
 nd=["interleavings of two endpoints", "Server::step sequencing of its five sub-calls (returns impl Iterator: ignored; each sub-call is under contract)"], technique=T)

setp('C09',
 "Partial. Unbounded Verus proof of: Flush gate (transition to Closing iff disconnect signal is Now, or Flush and !is_send_pending(), with is_send_pending proved to be the three-queue disjunction); drain-before-terminal (receive() ran after the last datagram: its proved postcondition `window-ready flag clear` is asserted before Disconnect / Error(Timeout) / Closing on both endpoints); retry budget (resend only when due, time := now+2000, count decremented, Error(Timeout) only at count 0, arithmetic lemma: not before t0 + 22000 over the real constants); the peer's disconnect / disconnect-ack always produces the terminal event.",
 "",
 nd=["'every Reliable packet is delivered to the peer before it sees Disconnect' (needs C02's liveness half and a two-endpoint argument)"], technique=T)

setp('C10',
 "Partial. Unbounded Verus proof of the deadline invariant on both endpoints: becoming Active sets timeout_time_ms == now_ms + active_timeout_ms (D9), data/sync/ack frames handled while Active re-arm it to now_ms + active_timeout_ms, Error(Timeout) from Active iff now_ms >= timeout_time_ms; handshake and disconnect retry budgets as in C09.",
 "Only now_ms values are reasoned about (the clock is external).",
 nd=["'with keepalive a loss-free connection never times out' (liveness; needs the peer to send)"], technique=T, thorough=['native:C10'])

setp('C12',
 "Partial. Unbounded Verus proof of: resend flag == (mode is Persistent or Reliable); every stale TimeSensitive entry at the queue front is dropped (and its bytes subtracted) before a packet is pulled, a pulled packet leaves the send queue (handed to the fragment queues once); DataFrameEmitter::push records a FragmentRef for resend iff `resend`, nothing on error, and the frame log entry carries exactly the collected refs; send() tags the entry with the current flush id.",
 "",
 nd=["'only resend-flagged fragments enter the resend queue' and 'acknowledged or dropped fragments are purged instead of resent': statements about the body of HalfConnection::emit_data_frames, which no engine reaches (closures capturing &mut; Kani scenario did not finish). Covered by the four existing unit tests only."],
 nuc=["HalfConnection::emit_data_frames, HalfConnection::step (flush_id increment) — pinned"], technique=T)

setp('C13',
 "Per-call emission contracts proved unbounded by Verus on the real emitters and the sync path (a frame is started only with credit >= 0, grows only by the code's rule, every frame handed to the sink has length L <= 1472 and debits the credit by exactly L; one call site per emitter, any new one fails `unexpected-emission-site`), the sink ledger (bytes into the sink == credit debited), plus the pure ledger lemma lemma_c13_interval (induction over ANY sequence of refills and emissions respecting those contracts: bytes emitted <= max(credit0,0) + bytes credited + 1472, credit never below -1472). Ceiling mapping tx_bandwidth_limit == min(local max_send_rate, peer max_receive_rate) proved at both handshake sites (C07 units). The refill side is float code and is decided by Kani on the real fill_flush_alloc (credit added == floor(rate*dt + carry) with the carry conserved bitwise, balance <= round(rate*rtt), carry in [0,1), D15) and on the real rate controller (X <= max_send_rate after every feedback and every no-feedback expiry, D19).",
 "The closures in emit_ack_frames / emit_data_frames debit HalfConnection.flush_alloc and the emitter's private copy by the same frame length: by inspection (pinned bodies). Literal bound of the property is met up to 2 bytes of rounding slack (floor with carry <= rate*dt + 1; cap rounded to nearest).",
 nd=["glue between HalfConnection.flush_alloc and the emitters' copies (closures)", "Instant - Instant saturates (std behaviour, assumed)", "the telescoping sum of the per-step credits (sum floor(x_i + carry) <= sum x_i + 1) is an argument over reals; f64 rounding of rate*dt is not bounded by the proof"],
 nuc=["HalfConnection::emit_ack_frames, emit_data_frames, step, fill_flush_alloc"], technique=T, thorough=['native:C13'])

setp('C15',
 "Unbounded Verus proof of the full C15 contract on the real FrameQueue::acknowledge_group: (a) empty bitfield, (b) any covered id not in the log, (c) nonce != XOR of the claimed frames' nonces => *final == *old; (d) no newly acknowledged frame => frame log and the whole feedback generator unchanged (D8); (e) otherwise exactly the frames with a set bit and acked == false flip, their fragment refs are taken, all other entries / ids / window unchanged, recorded ack data == merge(old, max send time and byte sum over the NEWLY acked frames only); FrameQueue::push records the given nonce/size/time iff can_push; DataFrameEmitter logs the nonce it drew and wrote into the frame; window advance never backtracks nor passes next_id.",
 "notify_ack / notify_advancement (closures) are trusted with frame contracts; their preconditions are proved at both call sites.",
 nd=[], technique=T, thorough=['native:C15'])

setp('C16',
 "Unbounded Verus proof on the real codec: every reader is total (no requires on the bytes) and agrees with a spec decoder in both directions (exact lengths, known type byte, enum values, payload consumed exactly); Frame::read returns Some only if len >= 5 and the CRC over b[..n-4] equals the trailing big-endian u32; writers and builders produce with_crc(enc_frame(..)) with the literal lengths; round-trip lemmas rt_datagram (micro/small/large, thresholds 63/64, 127/128, 255/256 by bit_vector), rt_frame, rt_read_write; crc::extend/compute == bit-serial crc_spec, table == polynomial division (by compute over the table's own text), affinity lemma. Hamming distance >= 5 for frames <= MAX_FRAME_SIZE: exhaustive enumeration (not deductive, reported as engine enum/rustc) of all 11776 syndrome columns and 69,331,200 pair XORs through the real crc.rs, justified by the proved affinity.",
 "clone_from_slice and Box<[T]>::from(&[T]) std contracts.",
 nd=["non-canonical encodings that the property does not forbid are accepted (SYN padding bytes, ignored high nibble, any non-zero nonce byte)"],
 technique='contract-based deductive verification (Verus) + exhaustive enumeration of the CRC syndrome columns through the real crc.rs', units=['verus', 'enum:crc_hd'])

setp('C17',
 "Unbounded Verus proof that every verified &mut method of Server preserves clients.len() <= max_total_connections and active_clients.len() <= max_active_connections (D10): only handle_handshake_syn inserts (guard: room under BOTH limits, else ServerFull reply and no insert), only handle_handshake_ack pushes (guard active.len() < max_active); every Fin assignment is paired with the removal from the map (ghost set, so a dropped removal fails a clause), removals strictly decrease the count where the map entry is known.",
 "SocketAddr obeys vstd's hash key model (one external_body axiom).",
 nd=["strict decrease of clients.len() in handle_event/handle_events (RefCell havoc cannot link the event's client to its map entry): proved len non-increasing + removal performed"],
 nuc=["Server::step (impl Iterator): retain + sequencing by inspection"], technique=T, thorough=['native:C17'])

setp('C18',
 "Unbounded Verus proof: every send_to site in server/mod.rs is enumerated and guarded (12 sites): replies to an untracked address are one 10-byte error or one 25-byte SYN-ACK (lengths from the proved writer contracts); SYN-ACK resends only while observed Pending, count strictly decreasing from HANDSHAKE_RESEND_COUNT, removal at 0; every other send site asserts an observed state that is not Pending; a SYN parses only from a 1472-byte datagram (Frame::read contract); pure ledger lemma 25*(1+10) = 275 < 1472 and 10 < 1472 over the real constants. A new send site fails `unexpected-emission-site`.",
 "UdpSocket::send_to is external (no effect model): the accounting is by site enumeration.",
 nd=[], technique=T)

setp('C20',
 "Unbounded Verus proof of the invariant total_size == sum of queued payload lengths + sum of the sizes of occupied window slots on all three mutators of the real PacketSender: enqueue_packet adds exactly len; emit_packet subtracts exactly the dropped stale TimeSensitive bytes and moves the front entry without changing the sum; acknowledge(b), for every u32 b, changes nothing unless b is a valid id in [base, next] and otherwise releases exactly the slots before b (no underflow: implicit obligations); quiescence lemma (queue empty and base == next => 0); HalfConnection::send / handle_ack_frame / send_buffer_size carry it to the API.",
 "The size read back through Rc<RefCell<PendingPacket>> equals the size stored: cell_const (immutability of PendingPacket's data after construction; its only mutator acknowledge_fragment is proved to preserve it; syntactic guard audit:pending_packet).",
 nd=[], technique=T, units=['verus', 'audit:pending_packet'])

KT = 'contract-based verification with Kani function contracts (proof_for_contract / stub_verified) on the real float code, woven into a scratch copy of the crate on every run'
setp('C14',
 "Kani/CBMC, bit-precise f64, on the real send_rate.rs woven with contracts (strictly modular: leaves proved alone, callers with stub_verified leaves): ms_to_s, s_to_ms, update_rtt (first sample => rtt == sample, else 0.9*old + 0.1*sample bitwise, rtt_ms == round(1000*rtt)), update_rto (max(4R, 2s/X)), initial rates (4380/R, 736/R), eval_tcp_throughput (no panic/NaN; p == 0 => saturates); handle_feedback for ALL feedback values in the stated domain: X <= max_send_rate, throughput-equation phase X <= max(X_Bps(new rtt, p), s/64) and X >= s/64, slow start at most doubles or sets W_init/R and never doubles within one RTT, first loss enters the equation phase at X_target with the loss history initialised once; nofeedback_expired keeps or halves (floor s/64, D14), never exceeds the ceiling and never increases (D19), no assertion failure on repeated expiries (D18); step() without feedback before the deadline leaves X unchanged; the constructor starts at X = s with the negotiated ceiling and notify_frame_sent starts slow start with a 2 s no-feedback timer and X_recv_set = {infinity} (establishing the state invariant the other harnesses assume), later frames only clear the idle flag. These are loop-free full-domain proofs (complete). the bisection result in [0,1] is bounded (<= 6 evaluations). RecvRateSet (X_recv_set, integer code): the contracts the float callers assume are proved by Verus for every set size on the real bodies (closure predicates of `retain` annotated in place, weaver T16): never empty after an update (D3), exactly the entries older than 2 RTT are deleted, result == max of the set and >= the new report, replace_max keeps max(non-initial rates, new rate); only `max` (iterator adapter) and `loss_increase_update` (iter_mut + one f64 product) stay trusted/pinned there, with the bounded Kani harnesses (sets of <= 3 entries) as their check. Loss event rate (kani/floats/loss.rs): under the queue invariant `at most 9 intervals, each >= 1 frame` (proved by Verus on push_ack / push_nack / new) compute_loss_rate returns 0 for an empty history and otherwise a finite number in (0, 1], for every queue length 1..9 and all interval lengths (complete; lengths 4..8 in the thorough tier) - this discharges the domain precondition `loss_rate in [0,1]` of handle_feedback; reset(p0) keeps the invariant for every p0 in (0, 1]. Verus (unbounded, on the integer glue around the float code): HalfConnection::step hands flush() the controller's RTT/RTO estimates or the 150/600 ms initial guesses, and the RTT sample reported by FrameQueue::get_feedback is `now - newest acknowledged send time`.",
 "Trusted: Kani 0.68 / CBMC 6.11 (+ cvc5 1.0.3 and kissat back ends), CBMC's sqrt model (non-deterministic within ~1 ulp: bitwise equality of eval_tcp_throughput with a transcription of RFC 5348 3.1 is NOT provable; only 4 concrete points in the thorough tier). Domain preconditions: now_ms <= 2^62, feedback.rtt_ms <= 2^61, loss_rate in [0,1] (the crate's own loss-interval code produces nothing else: kani/floats/loss.rs), state invariants I1-I6 listed in kani/floats/callers.rs. WEAVE-K: harness modules appended to the real files, contract attributes inserted in front of the real functions; nothing else changes.",
 nd=["termination of eval_tcp_throughput_inv for all floats (argued: the interval strictly shrinks or the function returns, D5)", "eval_tcp_throughput == RFC formula bitwise (sqrt model)", "RecvRateSet::max / loss_increase_update beyond 3 entries (trusted contracts, validated bounded)", "compute_loss_rate == the RFC 5348 5.4 formula for all histories (7 concrete histories only: the equivalence of two float computations is out of CBMC's reach)"],
 nuc=["FeedbackGen::get_feedback (receive-rate division in f64: pinned frame contract only)"], technique=KT, units=['kani:floats'], thorough=['native:C14'])
P['C14']['engine'] = 'kani'

setp('C19',
 "BOUNDED, not proof: after the D11 repair the crate has no unsafe block (the two `unsafe impl Send/Sync` have no executable content). Kani/CBMC harnesses on the real FragmentBuffer / AssemblyWindow code with CBMC's memory-leak check and Kani's allocator model (dealloc size must equal alloc size): new -> write -> finalize -> drop with a symbolic last-fragment length, finalize of a 2-fragment buffer with symbolic total_size, drop without finalize, (assembly-window partial/complete life cycles when merged); bounds: <= 2 fragments, <= 2 slots. Plus a dynamic whole-endpoint teardown check (native/it_c19_teardown.rs, an integration test with a counting global allocator: four connection life cycles over loopback - timeout mid-transfer, graceful disconnect, tentative entry dropped, server dropped while active - must return every byte with the size it was allocated with; a concrete leaking scenario is reported as the failing input). Plus a syntactic audit on every run (no unsafe block / forget / leak / ManuallyDrop / raw-pointer round trip; Rc strong edges form a DAG): if the audit no longer holds and no harness fails, the check is UNDECIDED.",
 "Trusted: Kani's allocator model and CBMC's leak check. Whole-endpoint teardown accounting (client/server drop) is not decided: it is an allocator-level dynamic question; ownership is by Rc/Weak with no cycles (audit).",
 nd=["teardown accounting of a whole client/server beyond the four tested life cycles", "life cycles with more than 2 fragments under Kani"], technique='bounded model checking with Kani/CBMC (allocator contract + leak check) on the real code, plus syntactic audit', units=['kani:heap', 'audit:heap', 'native:C19'])
P['C19']['level'] = 'bounded'; P['C19']['engine'] = 'kani'
P['C13']['units'] = ['verus', 'kani:refill', 'kani:floats@C13', 'native:C13']
P['C03']['units'] = ['verus', 'kani:floats@C03', 'native:C03']
P['C14']['units'] = ['verus', 'kani:floats', 'native:C14']
P['C15']['units'] = ['verus', 'native:C15']
P['C01']['units'] = ['verus', 'native:C01']
P['C06']['units'] = ['verus', 'native:C06']
P['C07']['units'] = ['verus', 'native:C07']
# native:<P> = regression replays of the repaired defects (and a few scenario tests) appended to the real files in a scratch
# copy: bounded, never counted as proof, but a fixed defect that returns is reported with its concrete input even where no
# deductive engine reaches the function (D2, D5).
for _p in ('C13', 'C03', 'C14', 'C15', 'C01', 'C06', 'C07'):
    P[_p]['thorough_units'] = [u for u in P[_p].get('thorough_units', []) if not u.startswith('native:')]
json.dump(c, open(os.path.join(VERIF, 'props.json'), 'w'), indent=1)
print('ok')
