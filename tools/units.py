"""unit dispatch: each property lists the units that decide it (props.json)."""
import os, sys, json


def run_all(run):
    units = list(run.pc.get('units', ['verus']))
    if run.tier == 'thorough':
        units += run.pc.get('thorough_units', [])
    for u in units:
        if u == 'verus':
            # A verifier that cannot decide (unsupported construct in a rewritten function, lost function, resource limit) must
            # not keep the other engines from looking at the real code: a failing exhaustive enumeration, Kani harness or native
            # witness on this tree is a violation whatever Verus could or could not do. The reason is kept and, if nothing else
            # fails, the run still ends UNDECIDED.
            import check as _check_mod
            _Und = getattr(sys.modules.get('__main__'), 'Undecided', None) or _check_mod.Undecided
            if len(units) > 1:
                try:
                    run.verus_unit()
                except _Und as e:
                    run.deferred_undecided.append(str(e))
                    run.notes.append('verus undecided, other units still run: ' + str(e)[:200])
            else:
                run.verus_unit()
        elif u.startswith('kani:'):
            import kani_unit
            import check as _check_mod2
            _Und2 = getattr(sys.modules.get('__main__'), 'Undecided', None) or _check_mod2.Undecided
            if len(units) > 1:
                # same rule as for Verus: a Kani build / front-end error or timeout does not keep the remaining units from running
                try:
                    kani_unit.run(run, u[5:])
                except _Und2 as e:
                    run.deferred_undecided.append(str(e))
                    run.notes.append('kani undecided, other units still run: ' + str(e)[:200])
            else:
                kani_unit.run(run, u[5:])
        elif u.startswith('enum:'):
            import enum_unit
            enum_unit.run(run, u[5:])
        elif u.startswith('audit:'):
            import audit_unit
            audit_unit.run(run, u[6:])
        elif u.startswith('native:'):
            import native_unit
            native_unit.run(run, u[7:])
        else:
            raise ValueError('unknown unit ' + u)
