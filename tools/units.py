"""unit dispatch: each property lists the units that decide it (props.json)."""
import os, sys, json


def run_all(run):
    units = list(run.pc.get('units', ['verus']))
    if run.tier == 'thorough':
        units += run.pc.get('thorough_units', [])
    for u in units:
        if u == 'verus':
            run.verus_unit()
        elif u.startswith('kani:'):
            import kani_unit
            kani_unit.run(run, u[5:])
        elif u.startswith('enum:'):
            import enum_unit
            enum_unit.run(run, u[5:])
        elif u.startswith('audit:'):
            import audit_unit
            audit_unit.run(run, u[6:])
        elif u.startswith('native:'):
            import native_unit
            native_unit.run(run, u[7:])
        else:
            raise ValueError('unknown unit ' + u)
