#!/usr/bin/env python3
"""Fast false-alarm sweep: for every behaviour-preserving patch in selftest/mutants/harmless*.diff, weave the patched tree and
run ONE whole-crate Verus verification; any failed obligation other than the canary and the recorded proof gap would be an
alarm for some property (the per-property checks attribute a subset of exactly these failures). Kani/native units are not
run here. Prints one line per patch."""
import os, sys, re, json, subprocess, tempfile, shutil, glob, concurrent.futures as cf
HERE = os.path.dirname(os.path.abspath(__file__)); VERIF = os.path.dirname(HERE)
sys.path.insert(0, HERE)
import weave


def one(patch):
    name = os.path.basename(patch)
    scratch = tempfile.mkdtemp(prefix='uflow-sweep.', dir='/var/tmp')
    try:
        repo = os.path.join(scratch, 'repo')
        subprocess.check_call(['rsync', '-a', '--exclude', 'target', '--exclude', '.git', '/repo/', repo + '/'])
        body = ''.join(l for l in open(patch) if not l.startswith('# '))
        p = subprocess.run(['patch', '-p1', '-s', '-d', repo], input=body, text=True, capture_output=True)
        if p.returncode != 0: return name, 'PATCH-FAILED', []
        skip = set()
        for attempt in range(5):
            w = weave.Weaver(repo, os.path.join(VERIF, 'contracts'), os.path.join(VERIF, 'verus'))
            text = w.weave()
            if skip: text, _ = weave.strip_clauses(text, skip)
            out = os.path.join(scratch, 'uflow.rs'); open(out, 'w').write(text)
            if w.lost: return name, 'UNDECIDED lost anchors', w.lost[:2]
            r = subprocess.run(['verus', out, '--error-format=json', '--multiple-errors', '60', '--num-threads', '6'], cwd=scratch, capture_output=True, text=True)
            diags = []
            for l in r.stderr.split('\n'):
                if l.startswith('{'):
                    try: diags.append(json.loads(l))
                    except Exception: pass
            errs = [d for d in diags if d.get('level') == 'error' and not d.get('message', '').startswith('aborting')]
            lm = weave.line_map(text)
            fe = [d for d in errs if d.get('code')]
            if fe:
                bad = set()
                for d in fe:
                    for sp in d.get('spans', []):
                        if sp.get('is_primary'):
                            e = lm[sp['line_start']] if sp['line_start'] < len(lm) else None
                            bad.add(e.get('clause') if e and e.get('clause') and any(k in e['clause'] for k in weave.DROPPABLE) else None)
                if bad and None not in bad and not bad <= skip:
                    skip |= bad; continue
                return name, 'UNDECIDED front-end error', [fe[0]['message'][:100]]
            fails = []
            for d in errs:
                msg = d['message']; sp = [s for s in d.get('spans', []) if s.get('is_primary')]
                txt = (sp[0].get('text') or [{}])[0].get('text', '').strip()[:90] if sp else ''
                if 'canary' in d.get('rendered', '') or 'ack_acc_ok' in d.get('rendered', ''): continue
                fails.append(msg + ' | ' + txt)
            soft = [s['desc'][:80] for s in w.soft_lost]
            tag = 'OK' if not fails else 'FAILED-OBLIGATIONS'
            if skip: tag += f' (dropped {len(skip)} clause(s))'
            if soft: tag += f' (soft-lost {len(soft)})'
            return name, tag, fails[:4]
        return name, 'UNDECIDED retries', []
    finally:
        shutil.rmtree(scratch, ignore_errors=True)


if __name__ == '__main__':
    pats = sorted(glob.glob(os.path.join(VERIF, 'selftest', 'mutants', 'harmless*.diff')))
    with cf.ThreadPoolExecutor(int(sys.argv[1]) if len(sys.argv) > 1 else 3) as ex:
        for name, tag, det in ex.map(one, pats):
            print(f'{name:24s} {tag}', ' ;; '.join(det), flush=True)
