#!/bin/bash
# usage: tools/intake.sh <PROP> <k> <new-id> <append:src/x.rs|tests:name> <filter> "<needs>"
# Confirms a sub-agent's change (/var/tmp/w6in/<PROP>/change<k>.diff + demo<k>.rs) in a private network namespace (the
# integration tests bind fixed loopback ports), stores it under /verif/seeded/<new-id>/ and runs the property's check on it.
P=$1; K=$2; ID=$3; TGT=$4; FIL=$5; NEEDS=$6
D=${INTAKE_DIR:-/var/tmp/w6in}/$P
L=/var/tmp/intake/$ID.log
{
unshare -rn sh -c "ip link set lo up; cd /verif && python3 tools/confirm_mutant.py $ID $P $D/change$K.diff $D/demo$K.rs '$TGT' '$FIL' --needs \"$NEEDS\" --demo-md $D/change$K.md"
echo "CONFIRM-EXIT $?"
if [ -d /verif/seeded/$ID ]; then /verif/tools/try_patch.sh /verif/seeded/$ID/patch.diff $P; fi
} > $L 2>&1
tail -3 $L | cut -c1-300
